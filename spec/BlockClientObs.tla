--------------------------- MODULE BlockClientObs ---------------------------
(* Property C05 -- block-wise client (RFC 7959): both bodies arrive intact   *)
(* or the request fails loudly.                                              *)
(* Monitor summary over the observable events of harness/blockclientdrive.py *)
(* (one transfer per trace):                                                 *)
(*   submit  the payload handed to the request API: len, cid                 *)
(*   req     a request datagram the client sent (rt: byte-identical          *)
(*           retransmission of the message layer): code, block options       *)
(*           b1n/b1m/b1s, b2n/b2m/b2s (-1 absent), plen, content cid/off/cok *)
(*   resp    a response of the reference server that is delivered to the     *)
(*           client (rt: the same message ID had been answered before, the   *)
(*           message layer drops it): code, block options, plen, etag, rid   *)
(*   lost    a datagram the network dropped (not judged)                     *)
(*   rep     the reference server created representation rid: len, cid       *)
(*   asm     the body the reference server reassembled: len, cid, cok        *)
(*   done    the request completed: x = "resp" (a response was returned:     *)
(*           code, len, cid, cok, pok) or the exception class                *)
(*   end     end of the observation                                          *)
(* Every event names its transfer (tr); the summary below is kept per        *)
(* transfer (BlockClientTrace / BlockClientPair keep one per tr).            *)
(* Responses with a code of class 4 or 5 are the server's right: e.x says    *)
(* whether the environment chose the error ("e1" on a Block1 request, "e2"   *)
(* on a Block2 continuation, "shrunk": the changed representation ends at or *)
(* before the offset asked for) or the client's own blocks provoked it.      *)
(* Bodies are self-describing (drive.canon): cid names the canonical string, *)
(* off the position the bytes were taken from, cok says that the bytes are   *)
(* one contiguous slice of a canonical string.                               *)
EXTENDS Naturals, Integers, Sequences, FiniteSets

Has(f, k) == k \in DOMAIN f
Put(f, k, v) == [x \in (DOMAIN f) \cup {k} |-> IF x = k THEN v ELSE f[x]]
Min(a, b) == IF a < b THEN a ELSE b
Size(szx) == 2 ^ (Min(szx, 6) + 4)

MaxAfterViolation == 2

NoReq == [b1n |-> -1, b1m |-> -1, b1s |-> -1, b2n |-> -1, b2s |-> -1]

ObsInit == [ nsub   |-> 0, ndone |-> 0,
             N      |-> -1, cid |-> -1,         \* the payload handed to the API
             b1next |-> 0,                      \* offset the next new Block1 request has to start at
             b1szx  |-> 7,                      \* size exponent of the client's previous Block1 request (7: none)
             b1srv  |-> 7,                      \* size exponent the server last used in a Block1 acknowledgement
             b2next |-> 0,                      \* bytes of the representation delivered so far
             b2szx  |-> 7, b2srv |-> 7,
             b2act  |-> FALSE,                  \* a delivered Block2 response announced more blocks
             etag   |-> -1,                     \* ETag of the first block of the representation being delivered
             lr     |-> NoReq,                  \* block options of the last new request
             reps   |-> << >>,                  \* rid -> [len, cid]
             rep    |-> 0,                      \* representation the result is served from (0: none delivered yet)
             asm    |-> [len |-> -1, cid |-> -1, ok |-> FALSE],   \* last body the server reassembled
             viol   |-> FALSE,                  \* an ETag change or a modelled sequencing violation was delivered
             hidden |-> FALSE,                  \* the representation changed without any difference in the ETag (both
                                                \* absent): the client cannot see it, outside the statement -> the
                                                \* returned body is not judged
             code   |-> 0, rk |-> 0,            \* method handed to the API; cache-key number of the first request
             nafter |-> 0,                      \* new requests the client sent after that
             errs   |-> {},                     \* error responses (class 4 / 5) delivered: [code, len, cid]
             enverr |-> FALSE,                  \* one of them was the environment's choice (not provoked by the client)
             b1err  |-> FALSE,                  \* an error response answered a Block1 request (the upload may start over)
             grown  |-> FALSE,                  \* the server answered a Block2 request above the requested exponent
             judged |-> {},                     \* which judgements were made on this transfer (evidence counters)
             bad    |-> {} ]

Flag(o, c) == [o EXCEPT !.bad = @ \cup {c}]
Judged(o, j) == [o EXCEPT !.judged = @ \cup {j}]
FlagIf(o, cond, c) == IF cond THEN Flag(o, c) ELSE o

ObsSubmit(o, e) == [o EXCEPT !.nsub = @ + 1, !.N = e.len, !.cid = e.cid, !.code = e.code]

(* ---- a new request datagram ------------------------------------------------ *)
ObsReqBlock1(o, e) ==
  LET size == Size(e.b1s)
      off  == e.b1n * size
      \* the bytes carried are the bytes of the payload at NUM x size
      o1 == FlagIf(o, ~(e.cok /\ (e.plen > 0 => (e.off = off /\ e.cid \in {o.cid, -2}))), "C05_NumTimesSizeIsOffset")
      \* (after an error response to a Block1 request -- 4.13, 4.08 .. -- the upload may also start over at 0)
      o2 == FlagIf(o1, off # o.b1next /\ ~(o.b1err /\ off = 0), "C05_Contiguous")
      o3 == FlagIf(o2, ~((e.b1m = 1) <=> (off + e.plen < o.N)), "C05_MoreIffNotFinal")
      o4 == FlagIf(o3, e.b1s > o.b1szx \/ e.b1s > o.b1srv, "C05_SzxNeverGrows")
  IN [o4 EXCEPT !.b1next = off + e.plen, !.b1szx = e.b1s]

ObsReqBlock2(o, e) ==
  LET off == e.b2n * Size(e.b2s)
      o1 == FlagIf(o, off # o.b2next, "C05_Contiguous")
      \* (a server that answered above the requested exponent has violated the protocol; the client may fail or go on
      \* at any exponent up to the server's -- the bodies are still judged)
      o2 == FlagIf(o1, (e.b2s > o.b2szx /\ ~o.grown) \/ e.b2s > o.b2srv, "C05_SzxNeverGrows")
  IN [o2 EXCEPT !.b2szx = e.b2s]

ObsReq(o, e) ==
  LET lr == [b1n |-> e.b1n, b1m |-> e.b1m, b1s |-> e.b1s, b2n |-> e.b2n, b2s |-> e.b2s] IN
  IF e.rt THEN o
  ELSE IF o.ndone > 0 THEN [o EXCEPT !.lr = lr]
  ELSE IF o.viol
    \* after a violation only the completion is judged -- and that there is one: a client that keeps asking
    \* (more than MaxAfterViolation further requests) does not "end with an error"
    THEN FlagIf([o EXCEPT !.lr = lr, !.nafter = @ + 1], o.nafter + 1 > MaxAfterViolation,
                "C05_ChangedOrViolatedEndsInError")
  ELSE LET \* every request of the transfer asks for what the application asked for: the same method and the same
           \* options apart from Block1 / Block2 / Size (rk numbers the distinct (method, options) of a trace)
           o0 == FlagIf([o EXCEPT !.rk = IF o.rk = 0 THEN e.rk ELSE o.rk],
                        e.code # o.code \/ (o.rk # 0 /\ e.rk # o.rk), "C05_SameRequest")
           o1 == IF e.b1n >= 0 THEN ObsReqBlock1(o0, e) ELSE o0
           o2 == IF e.b2n >= 0 THEN ObsReqBlock2(o1, e) ELSE o1
       IN [o2 EXCEPT !.lr = lr]

(* ---- a response that reaches the client ------------------------------------ *)
ObsResp(o, e) ==
  IF e.rt \/ o.ndone > 0 THEN o
  ELSE
  LET lr == o.lr
      ok2xx == e.code \in 64..95
      err == e.code >= 128
      envErr == err /\ e.x \in {"e1", "e2", "shrunk"}
      \* the sequencing violations named in the statement
      b1viol == /\ e.b1n >= 0 /\ lr.b1n >= 0
                /\ \/ e.b1n # lr.b1n                                   \* wrong block number acknowledged
                   \/ (lr.b1m = 0 /\ (e.b1m = 1 \/ e.code = 95))       \* more-flag / 2.31 on the final block
      reqoff == IF lr.b2n >= 0 THEN lr.b2n * Size(lr.b2s) ELSE 0
      \* a block that announces more blocks carries exactly its size.  One case is left to the body clauses
      \* instead (statement silent): the very first block of the representation (answer to the request itself, which
      \* carries no Block2 option or -- the application's own -- Block2 0/0/szx)
      \* with no payload at all or with a whole number of blocks -- nothing delivered so far is out of place, the
      \* client may go on from the byte count it has (the next request must ask for exactly that offset, and a
      \* returned body must be the representation) or fail
      lenbad == e.b2m = 1 /\ e.plen # Size(e.b2s)
      resync == (lr.b2n < 0 \/ (lr.b2n = 0 /\ o.rep = 0)) /\ e.plen % Size(e.b2s) = 0
      b2viol == /\ e.b2n >= 0 /\ ok2xx
                /\ \/ e.b2n * Size(e.b2s) # reqoff                     \* wrong block number
                   \/ (lenbad /\ ~resync)                              \* missing (or surplus) payload bytes
      \* the representation changed between blocks (ETag differs).  An ETag that differs -- present on some blocks
      \* only -- while the server is still serving the same representation obliges to nothing: the client may fail
      \* or go on (the body is judged as usual)
      changed == o.b2act /\ ok2xx /\ e.b2n >= 0 /\ e.etag # o.etag /\ e.rid # o.rep
      grows == ok2xx /\ e.b2n >= 0 /\ lr.b2n >= 0 /\ e.b2s > lr.b2s
      first == /\ (lr.b2n < 0 \/ (lr.b2n = 0 /\ o.rep = 0))             \* answers the complete request
               /\ (lr.b1n < 0 \/ lr.b1m = 0)
      unseen == o.b2act /\ ok2xx /\ e.b2n >= 0 /\ e.etag = o.etag /\ e.rid # o.rep
  IN IF err THEN [o EXCEPT !.errs = @ \cup {[code |-> e.code, len |-> e.plen, cid |-> e.cid]},
                           !.enverr = @ \/ envErr, !.b1err = @ \/ (lr.b1n >= 0)]
     ELSE IF b1viol \/ b2viol \/ changed THEN [o EXCEPT !.viol = TRUE]
     ELSE LET og == IF grows THEN [o EXCEPT !.grown = TRUE] ELSE o
              o1 == IF unseen THEN [og EXCEPT !.hidden = TRUE] ELSE IF e.b1n >= 0 THEN [og EXCEPT !.b1srv = e.b1s] ELSE og
              o2 == IF first /\ ok2xx /\ e.code # 95
                      THEN [o1 EXCEPT !.rep = e.rid, !.etag = e.etag, !.b2next = e.plen, !.b2act = FALSE] ELSE o1
          IN IF e.b2n >= 0 /\ ok2xx
               THEN [o2 EXCEPT !.b2srv = e.b2s, !.b2next = e.b2n * Size(e.b2s) + e.plen, !.b2act = (e.b2m = 1)]
               ELSE o2

ObsRep(o, e) == [o EXCEPT !.reps = Put(@, e.rid, [len |-> e.len, cid |-> e.cid])]
ObsAsm(o, e) == [o EXCEPT !.asm = [len |-> e.len, cid |-> e.cid, ok |-> e.cok]]

(* ---- completion ------------------------------------------------------------- *)
ObsDone(o, e) ==
  LET o1 == [o EXCEPT !.ndone = @ + 1]
      o2 == FlagIf(o1, o1.ndone > 1 \/ o.nsub = 0, "C05_CompletesOnce")
  IN IF e.x # "resp" \/ o.ndone > 0 THEN o2
     ELSE IF o.viol THEN Flag(o2, "C05_ChangedOrViolatedEndsInError")
     ELSE IF e.code >= 96 THEN Judged(
       \* a response that is no success: it has to be one the server sent (code and diagnostic payload) -- never a
       \* partly assembled body under it.  Without an error of the environment's choosing the reference server
       \* answers 4.xx only to inconsistent blocks: the upload was not intact
       IF ~o.enverr THEN Flag(o2, "C05_ServerBodyIntact")
       ELSE FlagIf(o2, ~(e.cok /\ [code |-> e.code, len |-> e.len, cid |-> IF e.len > 0 THEN e.cid ELSE -1] \in o.errs),
                   "C05_ErrorResponsePassedOn"), "error-response-returned")
     ELSE LET \* the body the reference server reassembled is the payload handed to the API
              sok == /\ e.code \in 64..95 /\ o.asm.ok /\ o.asm.len = o.N
                     /\ (o.N = 0 \/ o.asm.cid = o.cid)
              \* the body returned to the caller is the server's representation
              cok == /\ o.rep # 0 /\ Has(o.reps, o.rep)
                     /\ e.len = o.reps[o.rep].len /\ e.cok
                     /\ (e.len = 0 \/ e.cid = o.reps[o.rep].cid)
              \* a change no ETag shows (none on either representation) cannot be seen by the client: the statement
              \* promises nothing about which representation comes back -- but what comes back is made of the
              \* server's bytes at their own positions and ends where one of the representations ends
              hok == /\ e.pok /\ \E r \in DOMAIN o.reps : e.len = o.reps[r].len
          IN Judged(FlagIf(FlagIf(o2, ~sok, "C05_ServerBodyIntact"), IF o.hidden THEN ~hok ELSE ~cok, "C05_ClientBodyIntact"),
                    IF o.hidden THEN "bodies-after-hidden-change" ELSE IF o.grown THEN "bodies-after-server-growth"
                    ELSE IF o.enverr THEN "bodies-after-error-response" ELSE "bodies")

ObsEnd(o, e) == FlagIf(o, o.nsub > 0 /\ o.ndone # o.nsub, "C05_CompletesOnce")

ObsEvent(o, e) ==
  CASE e.k = "submit" -> ObsSubmit(o, e)
    [] e.k = "req"    -> ObsReq(o, e)
    [] e.k = "resp"   -> ObsResp(o, e)
    [] e.k = "rep"    -> ObsRep(o, e)
    [] e.k = "asm"    -> ObsAsm(o, e)
    [] e.k = "done"   -> ObsDone(o, e)
    [] e.k = "end"    -> ObsEnd(o, e)
    [] OTHER          -> o

RECURSIVE ObsFold(_, _)
ObsFold(o, es) == IF es = << >> THEN o ELSE ObsFold(ObsEvent(o, Head(es)), Tail(es))
=============================================================================
