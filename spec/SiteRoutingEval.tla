--------------------------- MODULE SiteRoutingEval ---------------------------
(***************************************************************************)
(* TLC as evaluator for property C17: operation histories that were        *)
(* generated outside the small model's constants (deeper nesting, more and *)
(* longer paths, other attribute values) are read from a JSON file; the    *)
(* reference operators of SiteRouting (Route / Listing / Filter, through    *)
(* Apply) are folded over each history and the expected outcome of every   *)
(* operation is written out.  The Python driver executes the same history on   *)
(* real aiocoap Site objects and compares.                                 *)
(*                                                                         *)
(* Input (environment variable C17_HIST): array of                         *)
(*   { "W":   { "root": id, "sites": [id..], "leaves": [id..],             *)
(*              "attrs": { rid: {"hidden": bool, "pairs": [[k, v]..]} } }, *)
(*     "ops": [ {op, site, path, id, query, key, val, star} .. ] }         *)
(* with every string that is not an id given as array of one-character     *)
(* strings.  An operation outside the domain of the statement (see         *)
(* InDomain) is answered with [kind |-> "domain"] and not applied: the     *)
(* driver treats that as a mistake of its generator, never as a verdict.   *)
(***************************************************************************)
EXTENDS SiteRouting, Json, IOUtils

Hist == JsonDeserialize(IOEnv.C17_HIST)

ToSet(s) == {s[i] : i \in 1..Len(s)}

WorldOf(h) == [root   |-> h.W.root,
               sites  |-> ToSet(h.W.sites),
               leaves |-> ToSet(h.W.leaves),
               attrs  |-> h.W.attrs]

RECURSIVE Run(_, _, _, _, _)
Run(W, s0, pv, ops, i) ==
  IF i > Len(ops) THEN <<>>
  ELSE IF ~InDomain(W, s0, ops[i])
       THEN <<[kind |-> "domain"]>> \o Run(W, s0, pv, ops, i + 1)
       ELSE LET r == Apply(W, s0, pv, ops[i])
            IN <<Show(r.exp)>> \o Run(W, r.st, r.prev, ops, i + 1)

Expected(h) == LET W == WorldOf(h) IN Run(W, InitSt(W), InitSt(W), h.ops, 1)

(* all expectations go to the file named by C17_OUT (sets become arrays);    *)
(* the printed line lets the driver check that every history was evaluated. *)
ASSUME /\ JsonSerialize(IOEnv.C17_OUT, [n \in 1..Len(Hist) |-> Expected(Hist[n])])
       /\ PrintT(<<"C17EVAL", Len(Hist)>>)

(* nothing to explore: one state, no steps *)
EvalInit == st = <<>> /\ prev = <<>> /\ act = <<>> /\ exp = <<>>
EvalNext == FALSE /\ UNCHANGED vars
EvalSpec == EvalInit /\ [][EvalNext]_vars
=============================================================================
