--------------------------- MODULE SiteRoutingEval ---------------------------
(***************************************************************************)
(* TLC as evaluator for property C17: operation histories that were        *)
(* generated outside the small model's constants (deeper nesting, more and *)
(* longer paths, other attribute values) are read from a JSON file; the    *)
(* reference operators of SiteRouting (Route / Listing / Filter, through   *)
(* Apply) are folded over each history and the expected outcome of every   *)
(* operation is written out.  The Python driver executes the same history  *)
(* on real aiocoap Site objects and compares.                              *)
(*                                                                         *)
(* Input (environment variable C17_HIST): array of                         *)
(*   { "W":   { "root": id, "sites": [id..], "leaves": [id..],             *)
(*              "attrs": { rid: {"hidden": bool, "pairs": [[k, v]..]} } }, *)
(*     "ops": [ {op, site, path, id, query, key, val, star,                *)
(*               method, con, host, port} .. ] }                           *)
(* with every string that is not an id given as array of one-character     *)
(* strings.  An operation outside the domain of the statement (see         *)
(* InDomain) is answered with [kind |-> "domain"] and not applied: the     *)
(* driver treats that as a mistake of its generator, never as a verdict.   *)
(***************************************************************************)
EXTENDS SiteRouting, Json, IOUtils

Hist == JsonDeserialize(IOEnv.C17_HIST)

ToSet(s) == {s[i] : i \in 1..Len(s)}

WorldOf(h) == [root   |-> h.W.root,
               sites  |-> ToSet(h.W.sites),
               leaves |-> ToSet(h.W.leaves),
               attrs  |-> h.W.attrs]

StepOf(W, acc, o) ==
  IF ~InDomain(W, acc.st, o)
  THEN [acc EXCEPT !.out = Append(@, [kind |-> "domain"])]
  ELSE LET r == Apply(W, acc.st, acc.prev, o)
       IN [st |-> r.st, prev |-> r.prev, out |-> Append(acc.out, Show(r.exp))]

Expected(h) ==
  LET W == WorldOf(h)
  IN SX!FoldLeft(LAMBDA acc, o : StepOf(W, acc, o),
                 [st |-> InitSt(W), prev |-> InitSt(W), out |-> <<>>], h.ops).out

(* All expectations go to the file named by C17_OUT (sets become arrays);   *)
(* the printed line lets the driver check that every history was evaluated. *)
ASSUME /\ JsonSerialize(IOEnv.C17_OUT, [n \in 1..Len(Hist) |-> Expected(Hist[n])])
       /\ PrintT(<<"C17EVAL", Len(Hist)>>)

(* nothing to explore: one state, no steps *)
EvalInit == st = <<>> /\ prev = <<>> /\ act = <<>> /\ exp = <<>> /\ asked = {}
EvalNext == FALSE /\ UNCHANGED vars
EvalSpec == EvalInit /\ [][EvalNext]_vars
=============================================================================
