----------------------------- MODULE TokenObs -----------------------------
(* Monitor summary and clauses for property C02: a response reaches exactly *)
(* the request it answers; every request completes once.  Events are the    *)
(* uniform records of harness/drive.py:                                     *)
(*   submit(q, r)  tx(r, ty, mid, tok, cls, q)  rx(r, ty, mid, tok, cls, q) *)
(*   rxend  done(q, cls)  err(r)  shutdown  loopexc(x)  end                 *)
(* For rx, q is the request whose token AND endpoint the datagram carries   *)
(* (0 if none).                                                             *)
EXTENDS Naturals, Integers, Sequences, FiniteSets

Has(f, k) == k \in DOMAIN f
Put(f, k, v) == [x \in (DOMAIN f) \cup {k} |-> IF x = k THEN v ELSE f[x]]

NoWin == [kind |-> "none", r |-> 0, mid |-> 0, answered |-> "", n |-> 0]

ObsInit == [ rq  |-> << >>,     \* q -> [r, tok, mid, con, st, granted, acked, resolvable, obs]
             win |-> NoWin,
             shut |-> FALSE,
             bad |-> {} ]

Flag(o, c) == [o EXCEPT !.bad = @ \cup {c}]
FlagIf(o, cond, c) == IF cond THEN Flag(o, c) ELSE o

Outstanding(o) == {q \in DOMAIN o.rq : o.rq[q].st = "out"}

ObsSubmit(o, e) ==
  [o EXCEPT !.rq = Put(@, e.q, [r |-> e.r, tok |-> "", mid |-> -1, con |-> e.con, st |-> "out",
                                granted |-> FALSE, acked |-> FALSE, mustend |-> o.shut, observe |-> e.obs = 0,
                                erred |-> FALSE])]

ObsTx(o, e) ==
  IF o.win.kind # "none" /\ e.r = o.win.r /\ e.mid = o.win.mid /\ e.ty \in {"ACK", "RST"}
    THEN [o EXCEPT !.win.answered = e.ty, !.win.n = @ + 1]
  ELSE IF e.cls = "req" /\ e.q # 0 /\ Has(o.rq, e.q) /\ o.rq[e.q].tok = ""
    THEN \* first transmission of q: its token must differ from every other outstanding request to that endpoint
         LET clash == \E p \in Outstanding(o) : p # e.q /\ o.rq[p].r = e.r /\ o.rq[p].tok = e.tok
         IN FlagIf([o EXCEPT !.rq[e.q].tok = e.tok, !.rq[e.q].mid = e.mid], clash, "C02_TokensDistinct")
  ELSE o

ObsRx(o, e) ==
  LET live == e.q # 0 /\ Has(o.rq, e.q) /\ o.rq[e.q].st = "out"
      W(kind) == [NoWin EXCEPT !.kind = kind, !.r = e.r, !.mid = e.mid]
  IN IF e.cls = "resp" /\ e.ty \in {"CON", "NON", "ACK"}
       THEN IF live /\ o.rq[e.q].erred
              THEN \* a transport error was reported for the endpoint and the request is being failed: whether
                   \* its token counts as retired already is the implementation's business (not judged)
                   [o EXCEPT !.rq[e.q].granted = TRUE, !.win = W("free")]
            ELSE IF live
              THEN \* the first matching response retires the token at once ("ans": answered, completion pending)
                   [o EXCEPT !.rq[e.q].granted = TRUE, !.rq[e.q].st = "ans",
                             !.win = W(IF e.ty = "CON" THEN "ackit" ELSE "quiet")]
              ELSE [o EXCEPT !.win = W(IF e.ty = "CON" /\ e.loc # "m" THEN "rstit" ELSE "quiet")]
     ELSE IF e.cls = "empty" /\ e.ty \in {"ACK", "RST"}
       THEN \* message-layer resolution of some request's exchange
            LET qs == {q \in Outstanding(o) : o.rq[q].r = e.r /\ o.rq[q].mid = e.mid /\ o.rq[q].con}
            IN [o EXCEPT !.rq = [q \in DOMAIN @ |->
                                   IF q \in qs THEN [@[q] EXCEPT !.acked = (e.ty = "ACK"),
                                                                  !.mustend = (@ \/ e.ty = "RST")]
                                   ELSE @[q]],
                         !.win = W("quiet")]
     ELSE [o EXCEPT !.win = W("free")]

ObsRxEnd(o, e) ==
  LET w == o.win
      o1 == CASE w.kind = "rstit" -> FlagIf(o, ~(w.answered = "RST" /\ w.n = 1), "C02_UnknownConGetsRst")
              [] w.kind = "ackit" -> FlagIf(o, w.answered = "RST", "C02_MatchingNotReset")
              [] OTHER -> o
  IN [o1 EXCEPT !.win = NoWin]

ObsDone(o, e) ==
  IF ~Has(o.rq, e.q) THEN Flag(o, "C02_DoneUnknown")
  ELSE LET s == o.rq[e.q]
           o1 == FlagIf(o, s.st = "done", "C02_CompleteOnce")
           o2 == FlagIf(o1, e.cls = "resp" /\ ~s.granted, "C02_DeliverOnlyMatching")
           o3 == FlagIf(o2, e.cls = "other", "C02_ErrorsAreLibraryErrors")
       IN [o3 EXCEPT !.rq[e.q].st = "done"]

ObsErr(o, e) ==
  [o EXCEPT !.rq = [q \in DOMAIN @ |-> IF @[q].r = e.r /\ @[q].st = "out"
                                         THEN [@[q] EXCEPT !.mustend = TRUE, !.erred = TRUE] ELSE @[q]]]

ObsShutdown(o, e) ==
  [o EXCEPT !.shut = TRUE,
            !.rq = [q \in DOMAIN @ |-> IF @[q].st = "out" THEN [@[q] EXCEPT !.mustend = TRUE] ELSE @[q]]]

ObsLoopExc(o, e) == FlagIf(o, e.x = "InvalidStateError", "C02_CompleteOnce")

(* At quiescence every request whose fate the schedule decided is complete:  *)
(* a matching response was read, its exchange was reset, an error was        *)
(* reported for its endpoint, the context was shut down, or it was an        *)
(* unacknowledged CON (which must have timed out).  A CON that was           *)
(* acknowledged and a NON wait for their response indefinitely by design.    *)
ObsEnd(o, e) ==
  FlagIf(o, \/ \E q \in Outstanding(o) :
                  LET s == o.rq[q] IN \/ s.mustend \/ (s.con /\ ~s.acked /\ s.tok # "")
                                      \* at true quiescence nothing is held back any more: a request that was
                                      \* never even transmitted has been forgotten
                                      \/ (s.tok = "" /\ e.x # "cut")
            \/ \E q \in DOMAIN o.rq : o.rq[q].st = "ans",
         "C02_AllComplete")

ObsEvent(o, e) ==
  CASE e.k = "submit"   -> ObsSubmit(o, e)
    [] e.k = "tx"       -> ObsTx(o, e)
    [] e.k = "rx"       -> ObsRx(o, e)
    [] e.k = "rxend"    -> ObsRxEnd(o, e)
    [] e.k = "done"     -> ObsDone(o, e)
    [] e.k = "err"      -> ObsErr(o, e)
    [] e.k = "shutdown" -> ObsShutdown(o, e)
    [] e.k = "loopexc"  -> ObsLoopExc(o, e)
    [] e.k = "end"      -> ObsEnd(o, e)
    [] OTHER            -> o

RECURSIVE ObsFold(_, _)
ObsFold(o, es) == IF es = << >> THEN o ELSE ObsFold(ObsEvent(o, Head(es)), Tail(es))
=============================================================================
