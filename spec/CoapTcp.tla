------------------------------- MODULE CoapTcp -------------------------------
(* C15 -- CoAP over TCP: a peer sends a sequence of at most MaxSeq messages *)
(* taken from a table of archetypes (all signalling codes, empty, request,  *)
(* response, requests at the 12/13 length boundary and at the local maximum *)
(* message size, and the fatal frames); the resulting byte stream reaches   *)
(* the receiver of CoapTcpFrame cut into chunks in EVERY possible way       *)
(* (action Feed(n) for every n up to what is left).  The invariants compare *)
(* the receiver's state with what the property statement assigns to the     *)
(* sequence of complete frames, computed from the archetype table alone     *)
(* (class of each frame by construction, not by parsing), so they hold for  *)
(* every chunking iff the spool/drain design is independent of segmentation.*)
(*                                                                          *)
(* Behaviours of this module (tlc -simulate) are replayed on the real       *)
(* TcpConnection by checks/c15.py.                                          *)
EXTENDS CoapTcpFrame, TLC

CONSTANTS MaxSeq,     \* messages per stream
          MaxMsg,     \* the receiver's maximum message size (16 in the table below)
          LongFirst,  \* first archetype of the sequences of length MaxSeq
          LongTooks,  \* receiver kinds explored with the sequences of length MaxSeq
          Tooks       \* subset of BOOLEAN: kinds of receiver (see `took' in CoapTcpFrame)

PendToks == << <<81>>, <<82>> >>      \* tokens of the two requests pending at the receiver

Bytes(n) == [i \in 1..n |-> 64 + i]

\* cls: what the statement says about the frame, by construction
\*  "csm" | "ping" | "nop" (Pong) | "peer" (Release, Abort) | "empty" | "unk"
\*  (unknown 7.xx: statement silent) | "msg" | "soft" (string option not UTF-8:
\*  dispatched or refused) | "softcsm" (a CSM with such a value under an
\*  elective option: processed or refused) | "fatal"
A(k, cls, m) == [k |-> k, cls |-> cls, m |-> m, b |-> Frame(m)]
R(k, cls, b) == [k |-> k, cls |-> cls, m |-> Msg(0, << >>, << >>, << >>), b |-> b]
Arch == <<
  A("csm",         "csm",   Msg(CSM, << >>, << <<2, <<64>> >> >>, << >>)),
  A("csm-crit",    "fatal", Msg(CSM, << >>, << <<1, << >> >> >>, << >>)),
  A("ping",        "ping",  Msg(PING, <<7>>, << >>, << >>)),
  A("pong",        "nop",   Msg(PONG, << >>, << >>, << >>)),
  A("release",     "peer",  Msg(RELEASE, << >>, << >>, << >>)),
  A("abort",       "peer",  Msg(ABORT, << >>, << >>, <<33>>)),
  A("empty",       "empty", Msg(EMPTY, <<9>>, << >>, << >>)),
  A("sig-unknown", "unk",   Msg(234, << >>, << >>, << >>)),
  A("req",         "msg",   Msg(1, <<17>>, << <<11, <<97>> >> >>, << >>)),
  A("resp",        "msg",   Msg(69, <<81>>, << >>, <<112>>)),
  A("req-b12",     "msg",   Msg(2, << >>, << >>, Bytes(11))),   \* Len nibble 12
  A("req-b13",     "msg",   Msg(2, << >>, << >>, Bytes(12))),   \* Len nibble 13 + 1 byte; 16 bytes = MaxMsg
  A("oversize",    "fatal", Msg(2, << >>, << >>, Bytes(13))),   \* 17 bytes > MaxMsg
  R("tkl9",        "fatal", <<9, 1>> \o Bytes(9)),              \* TKL 9, Len 0
  R("badopt",      "fatal", <<32, 1, 178, 97>>),                \* Uri-Path of length 2, one byte present
  A("ping-crit",   "fatal", Msg(PING, << >>, << <<1, << >> >> >>, << >>)),
  A("req-badutf8", "soft",  Msg(1, << >>, << <<11, <<200>> >> >>, << >>)),
  A("csm-o8bin",   "softcsm", Msg(CSM, << >>, << <<8, <<255>> >> >>, << >>))   \* elective option 8, not UTF-8
>>
NArch == Len(Arch)

VARIABLES seq,         \* the archetypes sent, as indices into Arch
          stream,      \* their frames, concatenated
          tk,          \* kind of receiver: aborts where the statement leaves it open, or not
          pos,         \* bytes of the stream delivered so far
          spool, csmSeen, closed, dispatched, written,   \* the receiver
          done, stopAt, nproc, nempty, pend              \* its bookkeeping (see CoapTcpFrame)

vars == <<seq, stream, tk, pos, spool, csmSeen, closed, dispatched, written, done, stopAt, nproc, nempty, pend>>

NFr == Len(seq)
Fr(i) == Arch[seq[i]]

St == [spool |-> spool, csm |-> csmSeen, done |-> done, closed |-> closed, disp |-> dispatched,
       wr |-> written, nproc |-> nproc, stopAt |-> stopAt, nempty |-> nempty, pend |-> pend]

\* sequences of up to MaxSeq archetypes; the longest ones start with an
\* archetype from LongFirst (all of them in the thorough tier, the CSM in the
\* quick tier)
Init == /\ seq \in UNION {[1..n -> 1..NArch] : n \in 0..MaxSeq}
        /\ tk \in Tooks
        /\ Len(seq) = MaxSeq => seq[1] \in LongFirst /\ tk \in LongTooks
        /\ stream = Flatten([i \in 1..Len(seq) |-> Arch[seq[i]].b])
        /\ pos = 0
        /\ spool = << >> /\ csmSeen = FALSE /\ closed = FALSE /\ dispatched = << >> /\ written = << >>
        /\ done = "no" /\ stopAt = 0 /\ nproc = 0 /\ nempty = 0
        /\ pend = [j \in 1..Len(PendToks) |-> "pending"]

\* the next n bytes arrive in one piece (nothing is delivered to a connection
\* that is closed or whose peer has said good-bye)
Feed(n) ==
  /\ done = "no" /\ pos + n <= Len(stream)
  /\ LET s == RecvChunk(St, SubSeq(stream, pos + 1, pos + n), tk, MaxMsg, PendToks)
     IN /\ spool' = s.spool /\ csmSeen' = s.csm /\ closed' = s.closed
        /\ dispatched' = s.disp /\ written' = s.wr /\ done' = s.done
        /\ stopAt' = s.stopAt /\ nproc' = s.nproc /\ nempty' = s.nempty /\ pend' = s.pend
  /\ pos' = pos + n
  /\ UNCHANGED <<seq, stream, tk>>

Next == Feed(1) \/ \E n \in 2..(Len(stream) - pos) : Feed(n)
Spec == Init /\ [][Next]_vars

\* ------------------------------------------------ what the statement says
RECURSIVE End(_)
End(i) == IF i = 0 THEN 0 ELSE End(i - 1) + Len(Fr(i).b)
K == Cardinality({i \in 1..NFr : End(i) <= pos})          \* complete frames
Judged == IF done = "no" THEN K ELSE stopAt - 1              \* frames the statement decides
IsCsm(j) == Fr(j).cls \in {"csm", "softcsm"}
CsmBefore(i) == \E j \in 1..(i - 1) : IsCsm(j)
Count(n, c) == Cardinality({i \in 1..n : Fr(i).cls = c})

RECURSIVE ExpDisp(_, _)
ExpDisp(i, n) == IF i > n THEN << >>
                 ELSE (IF Fr(i).cls \in {"msg", "soft"} /\ CsmBefore(i) THEN <<Fr(i).m>> ELSE << >>)
                      \o ExpDisp(i + 1, n)
RECURSIVE ExpPongs(_, _)
ExpPongs(i, n) == IF i > n THEN << >>
                  ELSE (IF Fr(i).cls = "ping" THEN << <<"pong", Fr(i).m.tok>> >> ELSE << >>)
                       \o ExpPongs(i + 1, n)

StopAllowed(i) ==
  /\ i \in 1..NFr /\ End(i - 1) < pos
  /\ \A j \in 1..(i - 1) : Fr(j).cls \notin {"fatal", "peer"}
  /\ CASE done = "fatal" -> Fr(i).cls = "fatal" \/ (Fr(i).cls \in {"soft", "softcsm"} /\ tk /\ (CsmBefore(i) \/ Fr(i).cls = "softcsm"))
       [] done = "peer"  -> Fr(i).cls = "peer"
       [] done = "may"   -> tk /\ (Fr(i).cls = "unk" \/ (Fr(i).cls \notin {"csm", "softcsm", "peer", "fatal"} /\ ~CsmBefore(i)))
       [] OTHER -> FALSE

C15_DispatchIndependentOfChunking ==
  /\ dispatched = ExpDisp(1, Judged)
  /\ done = "no" => nproc = K /\ spool = SubSeq(stream, End(K) + 1, pos)
  /\ done # "no" => StopAllowed(stopAt)

C15_NoDispatchBeforeCsm ==
  /\ dispatched # << >> => \E j \in 1..K : IsCsm(j)
  /\ csmSeen <=> \E j \in 1..nproc : IsCsm(j)

C15_FatalAborts ==
  /\ \A i \in 1..K : Fr(i).cls = "fatal" => done # "no" /\ stopAt <= i
  /\ done = "fatal" => closed /\ written # << >> /\ written[Len(written)] = <<"abort", << >> >>
  /\ closed => done \in {"fatal", "may"}

C15_PingPong ==
  written = ExpPongs(1, Judged) \o (IF done = "fatal" THEN << <<"abort", << >> >> >> ELSE << >>)

C15_EmptyIgnored ==
  /\ nempty = Count(Judged, "empty")
  /\ \A i \in 1..Len(dispatched) : dispatched[i].code # EMPTY
  /\ Len(written) = Count(Judged, "ping") + (IF done = "fatal" THEN 1 ELSE 0)

C15_ReleaseAbortFailPending ==
  /\ \A i \in 1..K : Fr(i).cls = "peer" => done # "no" /\ stopAt <= i
  /\ done = "peer" => \A j \in DOMAIN pend : pend[j] \in {"resp", "neterr"}
  /\ \A j \in DOMAIN pend :
       pend[j] = "resp" <=> \E i \in 1..Len(dispatched) : IsResp(dispatched[i].code) /\ dispatched[i].tok = PendToks[j]

\* the reference encoder and the reference parser agree on every archetype that
\* was built from a message (constant-level: checked once)
ASSUME \A i \in 1..NArch :
         Arch[i].cls # "fatal" \/ Arch[i].k \in {"csm-crit", "ping-crit", "oversize"} =>
           LET r == ParseFrames(Arch[i].b) IN r.rest = << >> /\ r.msgs = <<Arch[i].m>>
ASSUME Len(Arch[12].b) = MaxMsg /\ Len(Arch[13].b) = MaxMsg + 1

\* table of archetypes for the replay driver
ASSUME \A i \in 1..NArch : PrintT(<<"ARCH", i, Arch[i].k, Arch[i].b>>)
=============================================================================
