------------------------------ MODULE FileServer ------------------------------
(* C19 -- the file server never touches anything outside its root directory. *)
(*                                                                           *)
(* Three layers, one module:                                                 *)
(*  1. a small GLOBAL file-system tree in which the served root is a proper  *)
(*     subtree, with POSIX path semantics (an absolute right operand of a    *)
(*     join discards the left one, ".", "..", embedded "/", NUL);            *)
(*  2. the CONTRACT: the clauses of the property statement, written over an  *)
(*     observation of one request (response class, file-system effects,      *)
(*     changed objects).  They are evaluated unchanged on the model's own    *)
(*     predictions (invariants of the state machine below) and on            *)
(*     observations recorded from the real aiocoap.cli.fileserver.FileServer *)
(*     (module FileServerTrace);                                             *)
(*  3. the IMPLEMENTATION-SHAPED action: request_to_localpath's             *)
(*     filter-then-join, pathlib's joining, and render_get / render_put /    *)
(*     render_delete as sequences of kernel calls against the tree.  The     *)
(*     constant Guard selects the design alternative that additionally       *)
(*     refuses a joined relative part that is absolute.                      *)
(*                                                                           *)
(* Strings are modelled as sequences of character tokens (TLA+ strings of    *)
(* one character, or "U+XXXX" for everything that is not an ASCII letter or  *)
(* digit), so that "a/b" really is split at its slash and a NUL can be       *)
(* written down.  Three multi-character tokens are whole names: "BASE1",     *)
(* "BASE2" (the directory that holds the test tree: BASE1 stands for all but *)
(* the last component of the temp directory, BASE2 for the last) and "TMP"   *)
(* (the random name of a spool file made by tempfile).                       *)
EXTENDS Naturals, Sequences, FiniteSets, TLC

CONSTANTS MaxLen,    \* longest Uri-Path (number of components) enumerated over the alphabet
          LaterLen,  \* the same for the requests after the first one of a history
          MaxReq,    \* length of the request histories explored
          Guard,     \* BOOLEAN: implementation variant refuses a relative part starting with "/"
          BlockLens, \* file lengths for the block-wise clause
          CheckBlocks \* BOOLEAN: evaluate ImplBlocksMeetContract at start-up (model-checking runs)

Slash == "/"
Dot   == "."
Nul   == "U+0000"
DotSeg    == <<Dot>>
DotDotSeg == <<Dot, Dot>>

IsPrefix(p, q) == Len(p) <= Len(q) /\ SubSeq(q, 1, Len(p)) = p
Front(s) == SubSeq(s, 1, Len(s) - 1)
Last(s)  == s[Len(s)]
Range(s) == {s[i] : i \in 1..Len(s)}
Min(a, b) == IF a <= b THEN a ELSE b

(* ------------------------------------------------------------------------ *)
(* 1. The global tree.  A path is the sequence of names from "/" downwards.  *)
(* ------------------------------------------------------------------------ *)
nB1 == <<"BASE1">>   nB2 == <<"BASE2">>
nTop == <<"t", "o", "p">>   nSrv == <<"s", "r", "v">>
(* a sibling of the root whose NAME extends the root's name: as strings,     *)
(* "/T/top/srv2/a" starts with "/T/top/srv" (partial-path-prefix confusion)  *)
nSrv2 == <<"s", "r", "v", "2">>
nA == <<"a">>   nD == <<"d">>   nF == <<"f">>   nE == <<"U+00E9">>
TmpName == <<"TMP">>

Base == <<nB1, nB2>>          \* the temp directory of a run ("/" and BASE1 are its ancestors)
Top  == Append(Base, nTop)
Root == Append(Top, nSrv)     \* what the file server is started with

Dirs == {SubSeq(Root, 1, k) : k \in 0..Len(Root)}
          \cup {Append(Root, nD), Append(Top, nD), Append(Base, nD), Append(Top, nSrv2)}

InsideFiles  == {Append(Root, nA), Root \o <<nD, nF>>, Append(Root, nE)}
OutsideFiles == {Append(Top, nA), Top \o <<nD, nF>>,       \* siblings of the root
                 Top \o <<nSrv2, nA>>,                      \* ... in the look-alike sibling
                 Append(Base, nA), Base \o <<nD, nF>>}     \* an ancestor's
Fs0 == [p \in InsideFiles \cup OutsideFiles |-> "orig"]

Exists(fs, p) == p \in Dirs \/ p \in DOMAIN fs
Children(fs, d) == {p \in Dirs \cup DOMAIN fs : Len(p) = Len(d) + 1 /\ IsPrefix(d, p)}
PutFile(fs, q) == [p \in (DOMAIN fs) \cup {q} |-> IF p = q THEN "put" ELSE fs[p]]
DelFile(fs, q) == [p \in (DOMAIN fs) \ {q} |-> fs[p]]
Changed(f, g) == {p \in (DOMAIN f) \cup (DOMAIN g) :
                    \/ p \notin DOMAIN f \/ p \notin DOMAIN g \/ f[p] # g[p]}

(* -- strings ------------------------------------------------------------- *)
RECURSIVE JoinC(_)
JoinC(u) == IF Len(u) = 0 THEN << >>
            ELSE IF Len(u) = 1 THEN u[1]
            ELSE u[1] \o <<Slash>> \o JoinC(Tail(u))          \* "/".join(u)

(* cs.split("/"), written without recursion over the characters (TLC's      *)
(* evaluator would need a stack frame per character)                         *)
SlashPos(cs) == {i \in 1..Len(cs) : cs[i] = Slash}
Segments(cs) ==
  LET B == SlashPos(cs) \cup {0, Len(cs) + 1}
      Nth(k) == CHOOSE x \in B : Cardinality({y \in B : y < x}) = k - 1
  IN [k \in 1..(Cardinality(B) - 1) |-> SubSeq(cs, Nth(k) + 1, Nth(k + 1) - 1)]

HasSlash(c) == \E i \in 1..Len(c) : c[i] = Slash
HasNul(c)   == \E i \in 1..Len(c) : c[i] = Nul
IsAbs(cs)   == Len(cs) > 0 /\ cs[1] = Slash

(* -- POSIX resolution of join(root, "/".join(u)), lexically normalised: the *)
(*    object the request "would lead to".  No symbolic links in the tree, so *)
(*    lexical and physical ".." agree whenever the path can be walked.       *)
RECURSIVE Walk(_, _)
Walk(stack, segs) ==
  IF segs = << >> THEN stack
  ELSE LET s == Head(segs) IN
       IF s = << >> \/ s = DotSeg THEN Walk(stack, Tail(segs))
       ELSE IF s = DotDotSeg THEN Walk(IF stack = << >> THEN << >> ELSE Front(stack), Tail(segs))
       ELSE Walk(Append(stack, s), Tail(segs))

Target(u) ==
  LET rel == JoinC(u) IN
  IF HasNul(rel) THEN [k |-> "invalid", p |-> << >>]       \* no such path exists for the kernel
  ELSE LET p == Walk(IF IsAbs(rel) THEN << >> ELSE Root, Segments(rel))
       IN [k |-> IF IsPrefix(Root, p) THEN "inside" ELSE "outside", p |-> p]

(* ------------------------------------------------------------------------ *)
(* 2. The contract.  An observation of one request:                          *)
(*    [m, w, c, u, resp \in {"ok","err"}, eff : set of [k, p], chg : set of  *)
(*    paths whose existence or content differs before/after].  Effect kinds: *)
(*    read (open for reading / successful stat), list, create, replace,      *)
(*    delete; "probe" is a call that failed without touching an object.      *)
(* ------------------------------------------------------------------------ *)
Modifying == {"create", "replace", "delete"}
ObjKinds  == {"read", "list"} \cup Modifying
Inside(p) == IsPrefix(Root, p)

C19_Contained(o) ==
  /\ \A e \in o.eff : e.k \in ObjKinds => Inside(e.p)
  /\ \A p \in o.chg : Inside(p)

NoModification(o) == o.chg = {} /\ \A e \in o.eff : e.k \notin Modifying

(* "a request that would lead anywhere else [than to an object inside the    *)
(* root] is answered with an error response and has no effect".  A path with *)
(* a NUL (which the statement names explicitly) leads to no object at all,   *)
(* hence not to one inside the root: it must be an error, and the file       *)
(* system must be the same afterwards.  (For it a spool file that was        *)
(* created and removed again INSIDE the root is tolerated -- PUT ("x\0",)    *)
(* does that; anywhere else C19_Contained forbids it.)                       *)
C19_OutsideIsErrorNoEffect(o) ==
  LET t == Target(o.u).k IN
  /\ t = "outside" => (o.resp = "err" /\ NoModification(o))
  /\ t = "invalid" => (o.resp = "err" /\ o.chg = {})

C19_ReadOnlyNoWrite(o) == ~o.w => NoModification(o)

Clauses(o) == (IF C19_Contained(o) THEN {} ELSE {"C19_Contained"})
         \cup (IF C19_OutsideIsErrorNoEffect(o) THEN {} ELSE {"C19_OutsideIsErrorNoEffect"})
         \cup (IF C19_ReadOnlyNoWrite(o) THEN {} ELSE {"C19_ReadOnlyNoWrite"})

(* -- block-wise: the table of blocks a client walking a file of length L    *)
(*    with size exponent szx must see --------------------------------------- *)
RECURSIVE Pow2(_)
Pow2(n) == IF n = 0 THEN 1 ELSE 2 * Pow2(n - 1)
BlockSize(szx) == Pow2(szx + 4)
NBlocks(L, szx) == IF L = 0 THEN 1 ELSE (L + BlockSize(szx) - 1) \div BlockSize(szx)
BlockTable(L, szx) ==
  [i \in 1..NBlocks(L, szx) |->
     LET n == i - 1  sz == BlockSize(szx) IN
     [n |-> n, start |-> n * sz, len |-> Min(sz, L - n * sz), more |-> (n + 1) * sz < L]]

(* b = [content : Seq(0..255), szx, blocks : Seq([n, ok, more, payload])]: what a  *)
(* client got that asked for block 0, 1, ... until a response without "more" *)
C19_BlockwiseIdentical(b) ==
  LET tbl == BlockTable(Len(b.content), b.szx) IN
  /\ Len(b.blocks) = Len(tbl)
  /\ \A i \in 1..Min(Len(tbl), Len(b.blocks)) :
       /\ b.blocks[i].ok
       /\ b.blocks[i].n = tbl[i].n
       /\ b.blocks[i].more = tbl[i].more
       /\ b.blocks[i].payload = SubSeq(b.content, tbl[i].start + 1, tbl[i].start + tbl[i].len)

(* ------------------------------------------------------------------------ *)
(* 3. Implementation-shaped model (aiocoap/cli/fileserver.py).               *)
(* ------------------------------------------------------------------------ *)
Out(resp, eff, fs) == [resp |-> resp, eff |-> eff, fs |-> fs]
E(k, p) == [k |-> k, p |-> p]

(* request_to_localpath: any("/" in p or p in (".", "..") for p in path) *)
Filtered(u) == \E i \in 1..Len(u) : HasSlash(u[i]) \/ u[i] = DotSeg \/ u[i] = DotDotSeg
Refused(g, u) == Filtered(u) \/ (g /\ IsAbs(JoinC(u)))

(* self.root / "/".join(path): pathlib drops the root when the right operand *)
(* is absolute, and drops empty and "." segments (".." is kept)              *)
Local(u) ==
  LET rel == JoinC(u) IN
  [start |-> IF IsAbs(rel) THEN << >> ELSE Root,
   segs  |-> SelectSeq(Segments(rel), LAMBDA s : s # << >> /\ s # DotSeg)]

AnyNul(segs) == \E i \in 1..Len(segs) : HasNul(segs[i])

(* the kernel walking segs from an existing directory *)
RECURSIVE Phys(_, _, _)
Phys(fs, cur, segs) ==
  IF segs = << >> THEN [st |-> "ok", p |-> cur]
  ELSE IF cur \notin Dirs THEN [st |-> IF Exists(fs, cur) THEN "enotdir" ELSE "enoent", p |-> cur]
  ELSE IF Head(segs) = DotDotSeg
       THEN Phys(fs, IF cur = << >> THEN cur ELSE Front(cur), Tail(segs))
       ELSE Phys(fs, Append(cur, Head(segs)), Tail(segs))

Stat(fs, start, segs) ==
  IF AnyNul(segs) THEN [st |-> "einval", p |-> << >>]          \* ValueError: embedded null byte
  ELSE LET r == Phys(fs, start, segs) IN
       IF r.st # "ok" THEN r
       ELSE IF Exists(fs, r.p) THEN r ELSE [st |-> "enoent", p |-> r.p]

ImplGet(g, fs, c, u) ==
  IF Refused(g, u) THEN Out("err", {}, fs)                       \* 4.00
  ELSE LET l == Local(u)
           s == Stat(fs, l.start, l.segs) IN
       IF s.st # "ok" THEN Out("err", {}, fs)                   \* 4.04 / 5.00
       ELSE LET rd == {E("read", s.p)}
                trailing == u # << >> /\ Last(u) = << >> IN
            IF c = "match" THEN Out("ok", rd, fs)               \* 2.03
            ELSE IF s.p \in Dirs
                 THEN IF u # << >> /\ ~trailing THEN Out("err", rd, fs)
                      ELSE LET ls == rd \cup {E("list", s.p)} IN
                           \* relative_to(self.root) raises for the first entry of a foreign directory
                           IF Inside(s.p) \/ Children(fs, s.p) = {} THEN Out("ok", ls, fs)
                           ELSE Out("err", ls, fs)
                 ELSE IF trailing THEN Out("err", rd, fs) ELSE Out("ok", rd, fs)

ImplPut(g, fs, w, c, u) ==
  IF ~w THEN Out("err", {}, fs)                                  \* 4.03
  ELSE IF u = << >> \/ Last(u) = << >> THEN Out("err", {}, fs)
  ELSE IF Refused(g, u) THEN Out("err", {}, fs)
  ELSE LET l == Local(u)
           s == Stat(fs, l.start, l.segs)
           rd == IF s.st = "ok" THEN {E("read", s.p)} ELSE {} IN
       IF c = "inm" /\ s.st = "ok" THEN Out("err", rd, fs)                     \* 4.12
       ELSE IF c \in {"stale", "match"} /\ s.st # "ok" THEN Out("err", {}, fs)
       ELSE IF c = "stale" THEN Out("err", rd, fs)
       ELSE LET pre == IF c = "match" THEN rd ELSE {}
                par == Stat(fs, l.start, Front(l.segs)) IN
            IF par.st # "ok" \/ par.p \notin Dirs THEN Out("err", pre, fs)     \* NamedTemporaryFile fails
            ELSE LET tmp == Append(par.p, TmpName)
                     mk  == {E("create", tmp), E("delete", tmp)}
                     tgt == Append(par.p, Last(l.segs)) IN
                 IF HasNul(Last(l.segs)) \/ tgt \in Dirs
                 THEN Out("err", pre \cup mk, fs)                 \* rename fails, spool file unlinked
                 ELSE Out("ok",
                          pre \cup mk \cup {E(IF Exists(fs, tgt) THEN "replace" ELSE "create", tgt),
                                            E("read", tgt)},
                          PutFile(fs, tgt))

ImplDelete(g, fs, w, c, u) ==
  IF ~w THEN Out("err", {}, fs)
  ELSE IF u = << >> \/ Last(u) = << >> THEN Out("err", {}, fs)
  ELSE IF Refused(g, u) THEN Out("err", {}, fs)
  ELSE LET l == Local(u)
           s == Stat(fs, l.start, l.segs)
           rd == IF s.st = "ok" THEN {E("read", s.p)} ELSE {} IN
       IF c \in {"stale", "match"} /\ s.st # "ok" THEN Out("err", {}, fs)
       ELSE IF c = "stale" THEN Out("err", rd, fs)
       ELSE LET pre == IF c = "match" THEN rd ELSE {} IN
            IF s.st # "ok" \/ s.p \in Dirs THEN Out("err", pre, fs)
            ELSE Out("ok", pre \cup {E("delete", s.p)}, DelFile(fs, s.p))

(* Condition "match": the request carries the ETag that is current for its   *)
(* target (If-Match, or ETag for GET).  A client can only have one if a GET  *)
(* of the same path answers with an ETag; otherwise what it sends is stale.  *)
(* (The driver learns the ETag with a preparatory GET, which is a request of *)
(* its own in the history.)                                                  *)
Impl(g, fs, r) ==
  LET c2 == IF r.c = "match"
            THEN (IF ImplGet(g, fs, "stale", r.u).resp = "ok" THEN "match" ELSE "stale")
            ELSE r.c
  IN CASE r.m = "GET"    -> ImplGet(g, fs, c2, r.u)
       [] r.m = "PUT"    -> ImplPut(g, fs, r.w, c2, r.u)
       [] r.m = "DELETE" -> ImplDelete(g, fs, r.w, c2, r.u)
       [] OTHER          -> Out("err", {}, fs)           \* 4.05

(* f.seek(block.start); data = f.read(size + 1); more = len(data) > size *)
ImplBlock(content, n, szx) ==
  LET sz == BlockSize(szx)
      data == SubSeq(content, n * sz + 1, Min(Len(content), n * sz + sz + 1)) IN
  [n |-> n, ok |-> TRUE, more |-> Len(data) > sz, payload |-> SubSeq(data, 1, Min(sz, Len(data)))]

(* what a client collects that asks for block 0, 1, ... until 'more' is off *)
ImplFetch(content, szx) ==
  LET K == Len(content) \div BlockSize(szx) + 1
      last == CHOOSE k \in 0..K : /\ ~ImplBlock(content, k, szx).more
                                   /\ \A j \in 0..(k - 1) : ImplBlock(content, j, szx).more
  IN [i \in 1..(last + 1) |-> ImplBlock(content, i - 1, szx)]

ContentOf(L) == [i \in 1..L |-> (i * 7 + 3) % 251]

ASSUME ImplBlocksMeetContract ==
  CheckBlocks =>
  \A L \in BlockLens : \A szx \in 0..6 :
     C19_BlockwiseIdentical([content |-> ContentOf(L), szx |-> szx,
                             blocks |-> ImplFetch(ContentOf(L), szx)])

(* ------------------------------------------------------------------------ *)
(* Requests and the state machine.                                           *)
(* ------------------------------------------------------------------------ *)
(* "", ".", "..", "a", "d", "../a" (embedded slash leading out of the root),  *)
(* "d/f" (embedded slash staying inside), "x\0", "e-acute"                  *)
Alphabet == { << >>, DotSeg, DotDotSeg, nA, nD, <<Dot, Dot, Slash, "a">>, <<"d", Slash, "f">>,
              <<"x", Nul>>, nE }
Lists(k) == UNION {[1..j -> Alphabet] : j \in 0..k}
(* absolute probes: a leading empty component followed by the names of a     *)
(* real directory (the temp directory, the root's parent, the root itself)   *)
AbsProbes == {<< << >> >> \o p \o s : p \in {Base, Top}, s \in Lists(2)}
               \cup {<< << >> >> \o Root \o s : s \in Lists(1)}
(* sibling probes: out of the root and into the sibling whose name extends   *)
(* the root's name ("..", "srv2", ...), also with the ".." further down and  *)
(* as one component with embedded slashes                                    *)
SiblingProbes == {<<DotDotSeg, nSrv2>> \o s : s \in Lists(1)}
                   \cup {<<nD, DotDotSeg, DotDotSeg, nSrv2, nA>>,
                         << <<Dot, Dot, Slash>> \o nSrv2 \o <<Slash, "a">> >>}
(* decorated dot components: "." / ".." with a character that a sanitising   *)
(* step might remove or decode glued to them ("..\0", ".\0.", "\0..", ".\0", *)
(* "..%00", "%2e%2e", ".. ")                                                 *)
Pct == "U+0025"
DecoratedDots == { <<Dot, Dot, Nul>>, <<Dot, Nul, Dot>>, <<Nul, Dot, Dot>>, <<Dot, Nul>>,
                   <<Dot, Dot, Pct, "0", "0">>, <<Pct, "2", "e", Pct, "2", "e">>, <<Dot, Dot, "U+0020">> }
DecoratedProbes == {<<c>> \o s : c \in DecoratedDots, s \in Lists(1)}
                     \cup {<<nD, c, c, nA>> : c \in DecoratedDots}
Probes == AbsProbes \cup SiblingProbes \cup DecoratedProbes
UriPaths   == TLCEval(Lists(MaxLen) \cup Probes)
LaterPaths == TLCEval(Lists(LaterLen) \cup Probes)
(* every CoAP request method (RFC 7252, 8132); the check compares this set   *)
(* with the request codes of aiocoap.Code                                    *)
Methods == {"GET", "PUT", "DELETE", "POST", "FETCH", "PATCH", "iPATCH"}
(* conditional options: none; If-Match (ETag for GET) stale / current;      *)
(* If-Match with the empty ETag; If-None-Match -- for the methods that look  *)
(* at them                                                                   *)
Conds == {"none", "stale", "any", "match", "inm"}
CondsOf(m) == CASE m = "GET"    -> {"none", "stale", "match"}
                [] m = "PUT"    -> Conds
                [] m = "DELETE" -> {"none", "stale", "any", "match"}
                [] OTHER        -> {"none"}
(* (operators with a parameter: TLC evaluates them where they are used, not  *)
(* eagerly at start-up)                                                      *)
RequestsOver(mm, paths) == [m : {mm}, w : BOOLEAN, c : CondsOf(mm), u : paths]
RequestsOf(mm) == RequestsOver(mm, UriPaths)
AllRequests(ms) == UNION {RequestsOf(mm) : mm \in ms}

VARIABLES files,   \* existing regular files -> content tag
          last,    \* the last request with the model's response and effects (an observation)
          n
vars == <<files, last, n>>

NoLast == [m |-> "none", w |-> FALSE, c |-> "none", u |-> << >>, resp |-> "err", eff |-> {}, chg |-> {}]

Init == files = Fs0 /\ last = NoLast /\ n = 0

Serve(r) ==
  /\ \E out \in {Impl(Guard, files, r)} :      \* (bound once; a LET would be re-evaluated per use)
       /\ files' = out.fs
       /\ last' = [m |-> r.m, w |-> r.w, c |-> r.c, u |-> r.u,
                   resp |-> out.resp, eff |-> out.eff, chg |-> Changed(files, out.fs)]
  /\ n' = n + 1

Next == /\ n < MaxReq
        /\ \E mm \in Methods :
             \E r \in RequestsOver(mm, IF n = 0 THEN UriPaths ELSE LaterPaths) : Serve(r)
Spec == Init /\ [][Next]_vars

(* Only <<files, n>> decides what can happen next; `last' merely carries the   *)
(* observation of the step that was just taken (for the clauses and for the  *)
(* counterexample).  It is therefore kept out of the fingerprint (VIEW), and *)
(* the contract is checked as ACTION properties over last', which TLC        *)
(* evaluates on every transition it generates, not once per distinct state.  *)
View == <<files, n>>

Step_Contained              == [][C19_Contained(last')]_vars
Step_OutsideIsErrorNoEffect == [][C19_OutsideIsErrorNoEffect(last')]_vars
Step_ReadOnlyNoWrite        == [][C19_ReadOnlyNoWrite(last')]_vars
(* sanity: nothing outside the root ever differs from the pristine tree *)
Inv_OutsideUntouched ==
  \A p \in (DOMAIN files) \cup (DOMAIN Fs0) :
     ~Inside(p) => (p \in DOMAIN files /\ p \in DOMAIN Fs0 /\ files[p] = Fs0[p])
=============================================================================
