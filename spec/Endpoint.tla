------------------------------ MODULE Endpoint ------------------------------
(* A whole endpoint with its pending work -- client requests awaiting their  *)
(* ACK or their response, running server handlers with their empty-ACK       *)
(* timers, a second untouched context -- and a Shutdown action that is       *)
(* enabled in every state (protocol.Context.shutdown ->                      *)
(* TokenManager.shutdown -> MessageManager.shutdown -> udp6 shutdown).       *)
(* Timers that the implementation leaves armed across shutdown are modelled  *)
(* as such (constant CancelPiggyOnShutdown tells which version of the code   *)
(* is modelled).                                                             *)
EXTENDS ShutdownObs, TLC

CONSTANTS NReqs, NInv, EmptyAckDelay, MaxTime, MaxEnv,
          CancelPiggyOnShutdown     \* TRUE: MessageManager.shutdown cancels the empty-ACK timers

VARIABLES now,
          cq,      \* q -> [phase ("ack"|"resp"|"done"), other]
          hs,      \* inv -> [st ("running"|"finished"|"cancelled"), due (-1: no empty-ACK timer armed),
                   \*         other (a handler of the second context, which is not shut down)]
          shut,    \* "up" | "down"
          budget, emit, obs

vars == <<now, cq, hs, shut, budget, emit, obs>>

Ev(k, q, i, cls, x) == [k |-> k, t |-> now, q |-> q, inv |-> i, cls |-> cls, x |-> x, r |-> 1, ty |-> "", obs |-> -1,
                        loc |-> "u", mid |-> 0, tok |-> ""]
\* events of the second context's server role: request i has message ID 600 + i and token "o<i>"
OTok(i) == IF i = 1 THEN "o1" ELSE IF i = 2 THEN "o2" ELSE "o3"
OEv(k, i, cls, ty) == [Ev(k, 0, i, cls, IF k \in {"rx", "tx"} THEN "other" ELSE "") EXCEPT
                         !.loc = "o", !.mid = 600 + i, !.tok = OTok(i), !.ty = ty, !.r = 2]
Step(es) == /\ emit' = es /\ obs' = ObsFold(obs, es)

RECURSIVE SetToSeq(_)
SetToSeq(S) == IF S = {} THEN << >>
               ELSE LET m == CHOOSE x \in S : \A y \in S : x <= y IN <<m>> \o SetToSeq(S \ {m})

Init == /\ now = 0 /\ cq = << >> /\ hs = << >> /\ shut = "up" /\ budget = MaxEnv
        /\ emit = << >> /\ obs = ObsInit

TimerDue == \E i \in DOMAIN hs : hs[i].due >= 0 /\ hs[i].due <= now

NextQ == Cardinality(DOMAIN cq) + 1

Submit(con, other) ==
  /\ NextQ <= NReqs /\ budget > 0
  /\ LET q == NextQ
         x == IF other THEN "other" ELSE ""
     IN IF shut = "down" /\ ~other
          THEN /\ cq' = Put(cq, q, [phase |-> "done", other |-> other])
               /\ Step(<<Ev("submit", q, 0, "", x), Ev("done", q, 0, "shutdown", "")>>)
          ELSE /\ cq' = Put(cq, q, [phase |-> IF con THEN "ack" ELSE "resp", other |-> other])
               /\ Step(<<Ev("submit", q, 0, "", x), Ev("tx", q, 0, "req", x)>>)
  /\ budget' = budget - 1
  /\ UNCHANGED <<now, hs, shut>>

RxAck(q) ==
  /\ q \in DOMAIN cq /\ cq[q].phase = "ack" /\ (shut = "up" \/ cq[q].other) /\ budget > 0
  /\ cq' = [cq EXCEPT ![q].phase = "resp"]
  /\ Step(<<Ev("rx", q, 0, "empty", ""), Ev("rxend", 0, 0, "", "")>>)
  /\ budget' = budget - 1
  /\ UNCHANGED <<now, hs, shut>>

RxResp(q) ==
  /\ q \in DOMAIN cq /\ cq[q].phase \in {"ack", "resp"} /\ (shut = "up" \/ cq[q].other) /\ budget > 0
  /\ cq' = [cq EXCEPT ![q].phase = "done"]
  /\ Step(<<Ev("rx", q, 0, "resp", ""), Ev("rxend", 0, 0, "", ""), Ev("done", q, 0, "resp", "")>>)
  /\ budget' = budget - 1
  /\ UNCHANGED <<now, hs, shut>>

RxReq(con) ==
  /\ shut = "up" /\ budget > 0 /\ Cardinality(DOMAIN hs) < NInv
  /\ LET i == Cardinality(DOMAIN hs) + 1
     IN /\ hs' = Put(hs, i, [st |-> "running", due |-> IF con THEN now + EmptyAckDelay ELSE -1, other |-> FALSE])
        /\ Step(<<Ev("rx", 0, i, "req", ""), Ev("rxend", 0, 0, "", ""), Ev("call", 0, i, "", "")>>)
  /\ budget' = budget - 1
  /\ UNCHANGED <<now, cq, shut>>

\* the second context reads a request of its own (whether or not the first one is still up)
RxReqOther(con) ==
  /\ budget > 0 /\ Cardinality(DOMAIN hs) < NInv
  /\ LET i == Cardinality(DOMAIN hs) + 1
     IN /\ hs' = Put(hs, i, [st |-> "running", due |-> IF con THEN now + EmptyAckDelay ELSE -1, other |-> TRUE])
        /\ Step(<<OEv("rx", i, "req", IF con THEN "CON" ELSE "NON"), OEv("call", i, "", "")>>)
  /\ budget' = budget - 1
  /\ UNCHANGED <<now, cq, shut>>

Release(i) ==
  /\ i \in DOMAIN hs /\ hs[i].st = "running" /\ (shut = "up" \/ hs[i].other)
  /\ hs' = [hs EXCEPT ![i] = [@ EXCEPT !.st = "finished", !.due = -1]]
  /\ IF hs[i].other
       THEN \* piggy-backed while the acknowledgement is pending, separate otherwise
            Step(<<OEv("release", i, "", ""),
                   [OEv("tx", i, "resp", IF hs[i].due >= 0 THEN "ACK" ELSE "NON") EXCEPT
                      !.mid = IF hs[i].due >= 0 THEN 600 + i ELSE 0]>>)
       ELSE Step(<<Ev("release", 0, i, "", ""), Ev("tx", 0, i, "resp", "")>>)
  /\ UNCHANGED <<now, cq, shut, budget>>

(* the empty-ACK timer of handler i fires (on_timeout in _process_request)  *)
TimerEad(i) ==
  /\ i \in DOMAIN hs /\ hs[i].due = now
  /\ hs' = [hs EXCEPT ![i].due = -1]
  /\ IF hs[i].other
       THEN Step(<<OEv("tx", i, "empty", "ACK")>>)
     ELSE IF shut = "up"
       THEN Step(<<Ev("tx", 0, i, "empty", "")>>)
       ELSE \* the transport is closed: sendmsg on it raises inside the loop
            Step(<<Ev("loopexc", 0, i, "", "AttributeError")>>)
  /\ UNCHANGED <<now, cq, shut, budget>>

Shutdown ==
  /\ shut = "up"
  /\ shut' = "down"
  /\ LET pend == {q \in DOMAIN cq : ~cq[q].other /\ cq[q].phase # "done"}
         run == {i \in DOMAIN hs : hs[i].st = "running" /\ ~hs[i].other}
     IN /\ cq' = [q \in DOMAIN cq |-> IF q \in pend THEN [cq[q] EXCEPT !.phase = "done"] ELSE cq[q]]
        /\ hs' = [i \in DOMAIN hs |->
                    IF hs[i].other THEN hs[i]
                    ELSE [st |-> IF i \in run THEN "cancelled" ELSE hs[i].st,
                          due |-> IF CancelPiggyOnShutdown THEN -1 ELSE hs[i].due, other |-> FALSE]]
        /\ Step(<<Ev("shutdown", 0, 0, "", "")>>
                \o [k \in 1..Cardinality(run) |-> Ev("cancelled", 0, SetToSeq(run)[k], "", "")]
                \o [k \in 1..Cardinality(pend) |-> Ev("done", SetToSeq(pend)[k], 0, "shutdown", "")]
                \o <<Ev("shutdown-done", 0, 0, "ok", "")>>)
  /\ UNCHANGED <<now, budget>>

Tick == /\ ~TimerDue /\ now < MaxTime
        /\ now' = now + 1 /\ emit' = << >>
        /\ UNCHANGED <<cq, hs, shut, budget, obs>>

End == /\ ~TimerDue /\ now = MaxTime
       /\ (IF emit = << >> THEN TRUE ELSE emit[Len(emit)].k # "end")
       /\ \A q \in DOMAIN cq : cq[q].other => cq[q].phase = "done"     \* the other context's peer always answers
       /\ \A i \in DOMAIN hs : hs[i].other => hs[i].st = "finished"     \* ... and its handlers always finish
       /\ Step(<<Ev("end", 0, 0, "", "")>>)
       /\ UNCHANGED <<now, cq, hs, shut, budget>>

Next == \/ \E i \in DOMAIN hs : TimerEad(i)
        \/ (~TimerDue /\ \E con \in BOOLEAN, other \in BOOLEAN : Submit(con, other))
        \/ (~TimerDue /\ \E q \in DOMAIN cq : RxAck(q) \/ RxResp(q))
        \/ (~TimerDue /\ \E con \in BOOLEAN : RxReq(con))
        \/ (~TimerDue /\ \E con \in BOOLEAN : RxReqOther(con))
        \/ (~TimerDue /\ \E i \in DOMAIN hs : Release(i))
        \/ (~TimerDue /\ Shutdown)
        \/ Tick
        \/ End

Spec == Init /\ [][Next]_vars
NoBad == obs.bad = {}
View == <<now, cq, hs, shut, budget, obs>>
=============================================================================
