--------------------------- MODULE MsgServerObs ---------------------------
(* Observable events and monitor summary for the server role / reaction     *)
(* table of the CoAP message layer: properties C04 (duplicate requests) and *)
(* C10 (RFC 7252 message-type rules).  `obs' is a function of the           *)
(* observable events only; clause names found false are collected in        *)
(* obs.bad.  Used unchanged by the exhaustive model (MsgServer.tla) and by  *)
(* trace validation of real executions (MsgServerTrace.tla).                *)
(*                                                                          *)
(* Events are uniform records with (at least) the fields                    *)
(*   k    "rx" datagram read | "rxend" its synchronous processing returned  *)
(*        "tx" datagram sent | "call" handler invoked | "release" handler   *)
(*        produced its outcome | "submit"/"done" client request | "end"     *)
(*   t    time (ticks)     r  remote     ty "CON"/"NON"/"ACK"/"RST"         *)
(*   mid, tok (string), cls "empty"/"req"/"resp"/"other"/"sig", code, dig   *)
(*   q    request number when tok is the token of a submitted request       *)
(*   h    handler number addressed by a request (0: none), loc "u"/"m"      *)
(*        (received on / sent to a unicast / multicast address), nr         *)
(*        (No-Response option value)                                        *)
EXTENDS Naturals, Integers, Sequences, FiniteSets

CONSTANTS EmptyAckDelay,       \* EMPTY_ACK_DELAY    (ticks)
          ExchangeLifetime     \* EXCHANGE_LIFETIME  (ticks)

Has(f, k) == k \in DOMAIN f
Put(f, k, v) == [x \in (DOMAIN f) \cup {k} |-> IF x = k THEN v ELSE f[x]]

NoWin == [kind |-> "none", key |-> <<0, 0>>, ntx |-> 0, dig |-> 0, ty |-> "", mid |-> 0, cls |-> "", expect |-> 0]

ObsInit == [ seen  |-> << >>,   \* <<r, mid>> -> summary of the request datagram first seen under that key
             bytok |-> << >>,   \* <<r, tok>> -> key of the latest request carrying that token
             invkey |-> << >>,  \* handler invocation -> key of the request it serves
             pend  |-> {},      \* submitted client requests still waiting for their response
             csent |-> {},      \* <<r, mid, dig>> of the confirmable responses transmitted so far
             cpend |-> {},      \* <<r, mid>> of the confirmable responses the peer has neither acknowledged nor reset yet
             win   |-> NoWin,   \* the datagram whose synchronous processing is under way
             bad   |-> {} ]

Flag(o, c) == [o EXCEPT !.bad = @ \cup {c}]
FlagIf(o, cond, c) == IF cond THEN Flag(o, c) ELSE o

NewEntry(e) == [first |-> e.t, ty |-> e.ty, tok |-> e.tok, h |-> e.h, nr |-> e.nr,
                calls |-> 0,        \* handler invocations for this datagram identity
                ack |-> 0,          \* digest of the acknowledgement sent for it (0: none yet)
                nack |-> 0,         \* acknowledgements sent outside duplicate repetitions
                nresp |-> 0,        \* distinct responses sent for it
                rmid |-> -1, rdig |-> 0,   \* message ID / digest of the (last) response
                out |-> "",         \* "ret": the handler returned a message; "exc": it raised / returned junk
                rc |-> 0,           \* code of the message the handler returned (0: not logged / default success code)
                amb |-> FALSE]      \* a copy arrived exactly at the lifetime boundary: not judged

Suppressed(nr, code) == \* No-Response (RFC 7967): bit (class-1) set
  LET class == code \div 32 IN class >= 1 /\ ((nr \div (2 ^ (class - 1))) % 2 = 1)

(* ---- rx ------------------------------------------------------------------ *)
ObsRx(o0, e) ==
  LET o == FlagIf(o0, o0.win.kind # "none", "MON_NestedRx")
      key == <<e.r, e.mid>>
      W(kind, expect) == [NoWin EXCEPT !.kind = kind, !.key = key, !.expect = expect]
  IN
  IF e.cls = "req" /\ e.ty \in {"CON", "NON"} THEN
      IF Has(o.seen, key) /\ e.t - o.seen[key].first < ExchangeLifetime
        THEN IF o.seen[key].amb THEN [o EXCEPT !.win = W("free", 0)]
             ELSE [o EXCEPT !.win = W(IF e.ty = "CON" THEN "dupcon" ELSE "dupnon", o.seen[key].ack)]
      ELSE IF Has(o.seen, key) /\ e.t - o.seen[key].first = ExchangeLifetime
        THEN \* exactly at the boundary both readings are admissible: nothing about this identity is judged
             [o EXCEPT !.seen = Put(@, key, [NewEntry(e) EXCEPT !.amb = TRUE]),
                       !.bytok = Put(@, <<e.r, e.tok>>, key),
                       !.win = W("free", 0)]
      ELSE [o EXCEPT !.seen = Put(@, key, NewEntry(e)),
                     !.bytok = Put(@, <<e.r, e.tok>>, key),
                     !.win = W("new", 0)]
  ELSE IF e.cls = "empty" /\ e.ty = "CON" THEN [o EXCEPT !.win = W("ping", 0)]
  ELSE IF e.cls = "resp" /\ e.ty = "CON" THEN
      IF e.q # 0 /\ e.q \in o.pend
        THEN [o EXCEPT !.win = W("ackit", 0), !.pend = @ \ {e.q}]
      ELSE IF e.loc = "m" THEN [o EXCEPT !.win = W("silent", 0)]
      ELSE [o EXCEPT !.win = W("rstit", 0)]
  ELSE IF e.cls = "resp" /\ e.ty \in {"NON", "ACK"} THEN
      [o EXCEPT !.win = W("silent", 0), !.pend = @ \ {e.q}]
  ELSE IF e.cls = "empty" /\ e.ty \in {"ACK", "RST"} THEN [o EXCEPT !.win = W("silent", 0), !.cpend = @ \ {key}]
  ELSE IF (e.cls = "req" /\ e.ty \in {"ACK", "RST"}) \/ (e.cls = "resp" /\ e.ty = "RST")
          \/ (e.cls = "empty" /\ e.ty = "NON")
      THEN [o EXCEPT !.win = W("ignored", 0)]
  ELSE [o EXCEPT !.win = W("free", 0)]      \* cells the statement does not fix

(* An "answer" to the datagram being processed: ACK/RST under its message ID *)
IsAnswer(w, e) == e.r = w.key[1] /\ e.ty \in {"ACK", "RST"} /\ e.mid = w.key[2]

ObsTxInWin(o, e) ==
  [o EXCEPT !.win = [@ EXCEPT !.ntx = @ + 1, !.dig = e.dig, !.ty = e.ty, !.mid = e.mid, !.cls = e.cls]]

ObsRxEnd(o, e) ==
  LET w == o.win
      o1 == CASE w.kind = "dupcon" ->
                   FlagIf(o, ~(IF w.expect = 0 THEN w.ntx = 0 ELSE w.ntx = 1 /\ w.dig = w.expect),
                          "C04_DupConRepeatsAck")
              [] w.kind = "dupnon" -> FlagIf(o, w.ntx # 0, "C04_DupNonSilent")
              [] w.kind = "ping" ->
                   FlagIf(o, ~(w.ntx = 1 /\ w.ty = "RST" /\ w.mid = w.key[2] /\ w.cls = "empty"), "C10_PingRst")
              [] w.kind = "ackit" ->
                   FlagIf(o, ~(w.ntx >= 1 /\ w.expect = 1), "C10_ConResponseAcked")
              [] w.kind = "rstit" ->
                   FlagIf(o, ~(w.ntx >= 1 /\ w.expect = 1), "C10_UnmatchedConResponseRst")
              [] w.kind = "silent" -> FlagIf(o, w.expect # 0, "C10_UnmatchedSilent")
              [] w.kind = "ignored" -> FlagIf(o, w.ntx # 0, "C10_MisfitIgnored")
              [] OTHER -> o
  IN [o1 EXCEPT !.win = NoWin]

(* ---- tx ------------------------------------------------------------------ *)
\* tx while a datagram is being processed: for ackit/rstit/silent windows, `expect'
\* records whether a proper / an improper answer was seen
ObsTxWindow(o, e) ==
  LET w == o.win
      o1 == ObsTxInWin(o, e)
  IN CASE w.kind = "ackit" ->
            IF IsAnswer(w, e)
              THEN FlagIf([o1 EXCEPT !.win.expect = 1], ~(e.ty = "ACK" /\ e.cls = "empty") \/ w.expect = 1,
                          "C10_ConResponseAcked")
              ELSE o1
       [] w.kind = "rstit" ->
            IF IsAnswer(w, e)
              THEN FlagIf([o1 EXCEPT !.win.expect = 1], ~(e.ty = "RST" /\ e.cls = "empty") \/ w.expect = 1,
                          "C10_UnmatchedConResponseRst")
              ELSE o1
       [] w.kind = "silent" -> IF IsAnswer(w, e) THEN [o1 EXCEPT !.win.expect = 1] ELSE o1
       [] OTHER -> o1

\* an empty ACK sent by a timer (outside any processing window)
ObsTxEmptyAck(o, e) ==
  LET key == <<e.r, e.mid>> IN
  IF ~Has(o.seen, key) \/ o.seen[key].ty # "CON" THEN Flag(o, "C10_SpuriousAck")
  ELSE LET s == o.seen[key]
           o1 == FlagIf(o, ~s.amb /\ s.nack >= 1, "C10_AckOnce")
           \* the empty ACK must not come later than EMPTY_ACK_DELAY after the request (it may come
           \* earlier, e.g. when a finished response is suppressed by No-Response)
           o3 == FlagIf(o1, ~s.amb /\ e.t > s.first + EmptyAckDelay, "C10_EmptyAckAtDelay")
       IN [o3 EXCEPT !.seen[key].ack = e.dig, !.seen[key].nack = @ + 1]

\* a response (any type) outside a duplicate-repetition window
ObsTxResp(o, e) ==
  LET tk == <<e.r, e.tok>> IN
  IF ~Has(o.bytok, tk) THEN Flag(o, "C10_ResponseWithoutRequest")
  ELSE LET key == o.bytok[tk]
           s == o.seen[key]
       IN IF s.nresp >= 1 /\ e.mid = s.rmid /\ e.dig = s.rdig THEN o     \* retransmission of a CON response
          \* ... or of an earlier one whose token the peer has meanwhile used again
          ELSE IF e.ty = "CON" /\ <<e.r, e.mid, e.dig>> \in o.csent THEN o
          ELSE IF s.amb THEN o
          ELSE IF s.tok # e.tok THEN o    \* answers a request whose identity has meanwhile been forgotten and reused
          ELSE
          \* judged only for responses the handler returned: the statement is silent on whether
          \* library-generated error responses inherit the request's No-Response option
          LET o1 == FlagIf(o, s.out = "ret" /\ Suppressed(s.nr, e.code), "C10_NoResponseHonoured")
              o2 == IF e.ty = "ACK"
                      THEN \* piggy-backed: under the request's ID, only for a CON, only as the one acknowledgement,
                           \* and only within EMPTY_ACK_DELAY
                           FlagIf(FlagIf(FlagIf(o1, s.ty # "CON" \/ e.mid # key[2], "C10_PiggybackUnderRequestId"),
                                         s.nack >= 1, "C10_AckOnce"),
                                  e.t > s.first + EmptyAckDelay, "C10_PiggybackOnlyIfReady")
                      ELSE \* separate: a CON request must have been acknowledged first; a NON request is answered NON
                           FlagIf(FlagIf(FlagIf(FlagIf(o1, s.ty = "CON" /\ s.nack = 0, "C10_SeparateAfterEmptyAck"),
                                                s.ty = "CON" /\ e.t < s.first + EmptyAckDelay, "C10_PiggybackIfReady"),
                                         s.ty = "NON" /\ e.ty # "NON", "C10_NonAnsweredNon"),
                                  e.ty = "RST", "C10_ResponseType")
              o3 == FlagIf(o2, s.nresp >= 1, "C10_OneResponse")
          IN [o3 EXCEPT !.csent = IF e.ty = "CON" THEN @ \cup {<<e.r, e.mid, e.dig>>} ELSE @,
                        !.cpend = IF e.ty = "CON" THEN @ \cup {<<e.r, e.mid>>} ELSE @,
                        !.seen[key] = [s EXCEPT !.nresp = @ + 1, !.rmid = e.mid, !.rdig = e.dig,
                                               !.ack = IF e.ty = "ACK" THEN e.dig ELSE @,
                                               !.nack = IF e.ty = "ACK" THEN @ + 1 ELSE @]]

ObsTx(o0, e) ==
  LET o == FlagIf(o0, e.ty = "CON" /\ e.loc = "m", "C10_NeverConToMulticast") IN
  IF o.win.kind \in {"dupcon", "dupnon", "ping", "ackit", "rstit", "silent", "ignored"}
    THEN \* a separate response released from the backlog while an ACK / Reset is being processed is a response
         \* like any other (it is no answer to the datagram being processed)
         IF o.win.kind \in {"silent", "ackit"} /\ e.cls = "resp" /\ e.ty \in {"CON", "NON"}
           THEN ObsTxResp(o, e) ELSE ObsTxWindow(o, e)
  ELSE IF e.ty = "ACK" /\ e.cls = "empty" THEN ObsTxEmptyAck(o, e)
  ELSE IF e.cls = "resp" THEN ObsTxResp(o, e)
  ELSE IF e.ty = "ACK" THEN Flag(o, "C10_AckWithOddCode")
  ELSE o          \* requests sent by the client role, RSTs: judged elsewhere

(* ---- application side ----------------------------------------------------- *)
ObsCall(o, e) ==
  LET key == <<e.r, e.mid>> IN
  IF ~Has(o.seen, key) THEN Flag(o, "C04_CallWithoutRequest")
  ELSE LET s == o.seen[key]
       IN FlagIf([o EXCEPT !.seen[key].calls = @ + 1, !.invkey = Put(@, e.inv, key)],
               ~s.amb /\ s.calls >= 1, "C04_AtMostOnce")

RetOutcomes == {"ok", "nocode", "noresponse", "retcode"}   \* "retcode": a message with the code in e.code
ObsRelease(o, e) ==
  IF ~Has(o.invkey, e.inv) THEN o
  ELSE LET key == o.invkey[e.inv] IN
       [o EXCEPT !.seen[key].out = IF e.x \in RetOutcomes THEN "ret" ELSE "exc",
                 !.seen[key].nr = IF e.x = "noresponse" THEN 26 ELSE @,
                 !.seen[key].rc = IF e.x = "retcode" THEN e.code ELSE @]

ObsSubmit(o, e) == [o EXCEPT !.pend = @ \cup {e.q}]
ObsDone(o, e) == [o EXCEPT !.pend = @ \ {e.q}]

\* "... otherwise by an empty ACK followed by a separate response": what the handler returned is sent, unless
\* No-Response suppresses it or the peer overrode the request by re-using its token.  Judged only when no peer
\* left a confirmable response unanswered (what is queued behind a given-up exchange is dropped: C14's subject).
Owed(o, k) == LET s == o.seen[k] IN
  /\ s.out = "ret" /\ s.nresp = 0 /\ ~s.amb /\ ~Suppressed(s.nr, IF s.rc > 0 THEN s.rc ELSE 69)
  /\ Has(o.bytok, <<k[1], s.tok>>) /\ o.bytok[<<k[1], s.tok>>] = k

EndBad(o) ==
  {c \in {"C04_NewIsProcessed", "C10_ConAcked", "C10_NonNeverAcked", "C10_SeparateAfterEmptyAck"} :
     \/ c = "C10_SeparateAfterEmptyAck" /\ o.cpend = {} /\ \E k \in DOMAIN o.seen : Owed(o, k)
     \/ c = "C04_NewIsProcessed" /\ \E k \in DOMAIN o.seen : o.seen[k].h # 0 /\ o.seen[k].calls = 0 /\ ~o.seen[k].amb
     \/ c = "C10_ConAcked" /\ \E k \in DOMAIN o.seen : o.seen[k].ty = "CON" /\ o.seen[k].nack # 1 /\ ~o.seen[k].amb
     \/ c = "C10_NonNeverAcked" /\ \E k \in DOMAIN o.seen : o.seen[k].ty = "NON" /\ o.seen[k].nack # 0 }

ObsEnd(o, e) == [o EXCEPT !.bad = @ \cup EndBad(o)]

ObsEvent(o, e) ==
  CASE e.k = "rx"      -> ObsRx(o, e)
    [] e.k = "rxend"   -> ObsRxEnd(o, e)
    [] e.k = "tx"      -> ObsTx(o, e)
    [] e.k = "call"    -> ObsCall(o, e)
    [] e.k = "release" -> ObsRelease(o, e)
    [] e.k = "submit"  -> ObsSubmit(o, e)
    [] e.k = "done"    -> ObsDone(o, e)
    [] e.k = "end"     -> ObsEnd(o, e)
    [] OTHER           -> o

RECURSIVE ObsFold(_, _)
ObsFold(o, es) == IF es = << >> THEN o ELSE ObsFold(ObsEvent(o, Head(es)), Tail(es))
=============================================================================
