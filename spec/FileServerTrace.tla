--------------------------- MODULE FileServerTrace ---------------------------
(* TLC as enumerator and as judge for C19 (no behaviour specification: the   *)
(* work is done while TLC evaluates the assumptions).                        *)
(*                                                                           *)
(* C19_MODE = "enum":  writes every request of FileServer!AllRequests(Methods) and the   *)
(*   block tables of the block-wise clause to C19_OUT.                       *)
(* C19_MODE = "judge": reads observations recorded from the real             *)
(*   aiocoap.cli.fileserver.FileServer (C19_IN): histories of requests, each *)
(*   with response class, intercepted file-system effects and changed        *)
(*   objects; evaluates the contract clauses of FileServer on every step,    *)
(*   computes the contract's verdict about the target, and compares the step *)
(*   with the prediction of both variants of the implementation-shaped       *)
(*   model (unguarded / guarded), carrying each variant's file system along  *)
(*   the history.  Block-wise observations are judged by                     *)
(*   C19_BlockwiseIdentical.                                                 *)
EXTENDS FileServer, Json, IOUtils

Mode == IOEnv.C19_MODE

(* ------------------------------- enum ------------------------------------ *)
BlockCases(lens) == {[len |-> L, szx |-> s, tbl |-> BlockTable(L, s)] : L \in lens, s \in 0..6}

ASSUME Mode = "enum" =>
         JsonSerialize(IOEnv.C19_OUT, [requests |-> AllRequests(Methods), blocks |-> BlockCases(BlockLens)])

(* ------------------------------- judge ----------------------------------- *)
In == IF Mode = "judge" THEN JsonDeserialize(IOEnv.C19_IN) ELSE [cases |-> << >>, blocks |-> << >>]

Match(s, pred, before) ==
  /\ s.resp = pred.resp
  /\ Range(s.neff) = pred.eff
  /\ Range(s.chg) = Changed(before, pred.fs)

RECURSIVE JudgeSteps(_, _, _, _)
JudgeSteps(steps, i, fsU, fsG) ==
  IF i > Len(steps) THEN << >>
  ELSE LET s  == steps[i]
           r  == [m |-> s.m, w |-> s.w, c |-> s.c, u |-> s.u]
           o  == [m |-> s.m, w |-> s.w, c |-> s.c, u |-> s.u,
                  resp |-> s.resp, eff |-> Range(s.eff), chg |-> Range(s.chg)]
           pu == Impl(FALSE, fsU, r)
           \* the variants differ only in Refused, i.e. only for an absolute relative part
           pg == IF fsU = fsG /\ ~IsAbs(JoinC(s.u)) THEN pu ELSE Impl(TRUE, fsG, r)
           mu == Match(s, pu, fsU)
           mg == Match(s, pg, fsG)
           t  == Target(s.u)
           bad == Clauses(o)
       IN << [tk |-> t.k, tp |-> IF bad = {} THEN << >> ELSE t.p, bad |-> bad, mu |-> mu, mg |-> mg,
              pred |-> IF mu \/ mg THEN << >>
                       ELSE << [v |-> "guarded", resp |-> pg.resp, eff |-> pg.eff],
                               [v |-> "unguarded", resp |-> pu.resp, eff |-> pu.eff] >>] >>
            \o JudgeSteps(steps, i + 1, pu.fs, pg.fs)

JudgeBlock(b) == C19_BlockwiseIdentical(b)

ASSUME Mode = "judge" =>
         JsonSerialize(IOEnv.C19_OUT,
            [cases  |-> [i \in 1..Len(In.cases) |-> JudgeSteps(In.cases[i], 1, Fs0, Fs0)],
             blocks |-> [i \in 1..Len(In.blocks) |-> JudgeBlock(In.blocks[i])]])

(* TLC insists on a behaviour specification when a module declares variables; *)
(* this one has the single pristine state and no step.                       *)
TSpec == Init /\ [][FALSE]_vars
=============================================================================
