--------------------------- MODULE MsgClientStrict ---------------------------
(* Strict trace validation: a recorded execution of the real message layer   *)
(* (client role, real timer constants, real 16-bit message IDs) must be a    *)
(* behaviour of the implementation-shaped specification MsgClient.  Every    *)
(* step is one MsgClient action selected by the next logged event; the       *)
(* events that action emits must be exactly the following logged events.     *)
(* Values the environment chose are read from the log (remote, type, IDs,    *)
(* and the initial timeout the harness's random source handed out: field g). *)
(* Progress per trace is kept in TLC registers and printed at the end, so a  *)
(* trace that the specification cannot explain shows the length of the       *)
(* longest explained prefix instead of a counterexample.                     *)
EXTENDS MsgClient, Json, IOUtils, TLCExt

Traces == JsonDeserialize(IOEnv.TRACE_FILE)

VARIABLES tid, l
svars == <<vars, tid, l>>

Tr == Traces[tid]
Proj(e) == <<e.k, e.t, e.r, e.ty, e.mid, e.q, e.cls, IF e.k = "submit" THEN e.con ELSE FALSE>>
Matches(es) == /\ l + Len(es) - 1 <= Len(Tr)
               /\ \A i \in 1..Len(es) : Proj(es[i]) = Proj(Tr[l + i - 1])
GAt(i) == IF i <= Len(Tr) /\ Tr[i].k = "tx" /\ Tr[i].g > 0 THEN Tr[i].g ELSE ATmin

SInit == /\ tid \in 1..Len(Traces)
         /\ l = 2 /\ Traces[tid][1].k = "init"
         /\ now = 0 /\ nextMid = Traces[tid][1].mid /\ exch = << >> /\ backlog = << >> /\ rq = << >>
         /\ ended = FALSE /\ budget = MaxEnv /\ emit = << >> /\ obs = ObsInit

\* time passes up to the next logged event or to the next timer of the model, whichever is earlier
MinDue == IF exch = << >> THEN -1
          ELSE LET k == CHOOSE k \in DOMAIN exch : \A j \in DOMAIN exch : exch[k].due <= exch[j].due IN exch[k].due
SJump == /\ l <= Len(Tr) /\ now < Tr[l].t
         /\ now' = IF MinDue >= 0 /\ MinDue < Tr[l].t THEN (IF MinDue > now THEN MinDue ELSE now) ELSE Tr[l].t
         /\ now' > now
         /\ UNCHANGED <<nextMid, exch, backlog, rq, ended, budget, emit, obs, tid, l>>

\* a timer that fires without any observable effect (an exchange given up after its request was answered)
SSilentTimer == /\ \E k \in DOMAIN exch : exch[k].due = now /\ Timer(k)
                /\ emit' = << >>
                /\ UNCHANGED <<tid, l>>

SAct ==
  /\ l <= Len(Tr) /\ now = Tr[l].t
  /\ LET e == Tr[l] IN
       CASE e.k = "submit" -> Submit(e.q, e.r, e.con, GAt(l + 1))
         [] e.k = "rx" /\ e.cls = "empty" -> RxAckRst(e.r, e.mid, e.ty, GAt(l + 1))
         [] e.k = "rx" /\ e.cls = "resp" /\ e.q # 0 -> RxRespM(e.q, e.ty, e.mid, GAt(l + 1))
         [] e.k = "rx" /\ e.cls = "resp" /\ e.q = 0 -> RxUnknownResp(e.r, e.ty, e.mid, GAt(l + 1))
         [] e.k \in {"tx", "done"} -> \E k \in DOMAIN exch : exch[k].due = now /\ Timer(k)
         [] e.k = "err" -> Err(e.r)
         [] e.k = "end" -> End
         [] OTHER -> FALSE
  /\ Matches(emit')
  /\ l' = l + Len(emit')
  /\ UNCHANGED tid

SNext == SJump \/ SAct \/ SSilentTimer
SSpec == SInit /\ [][SNext]_svars

\* progress registers (workers = 1): register tid holds the furthest position reached
Progress == TLCSet(tid, IF TLCGet(tid) < l THEN l ELSE TLCGet(tid))
ASSUME \A i \in 1..Len(Traces) : TLCSet(i, 0)
PrintProgress == \A i \in 1..Len(Traces) : PrintT(<<"STRICT", i, TLCGet(i) - 1, Len(Traces[i])>>)
=============================================================================
