---------------------------- MODULE CoapTcpFrame ----------------------------
(* CoAP over TCP (RFC 8323) as pure operators over byte sequences:          *)
(*                                                                          *)
(*  1. the framing of section 3.2 (Len nibble, extended length at           *)
(*     13 / 269 / 65805, TKL, code, token, options + payload) -- encoder    *)
(*     `Frame' and header reader `Header';                                  *)
(*  2. the option coding of RFC 7252 section 3.1 (delta/length nibbles with *)
(*     their own 13 / 269 extensions) -- encoder `EncOpts' and parser       *)
(*     `ParseBody';                                                         *)
(*  3. the receiver of property C15 as a function `RecvChunk' from          *)
(*     (receiver state, chunk of the byte stream) to receiver state.  It is *)
(*     shaped like TcpConnection.data_received (spool, drain loop) but      *)
(*     follows the *statement*, not the code: complete frames are handled   *)
(*     in order; requests/responses are dispatched only after the peer's    *)
(*     CSM; a frame over the local maximum, TKL > 8, an unparsable body or  *)
(*     an unknown critical option in a signalling message => Abort + close; *)
(*     Ping => Pong with the same token; Release/Abort of the peer => every *)
(*     pending request fails; code 0.00 is ignored.  Where the statement is *)
(*     silent the function takes a parameter `took' ("the endpoint chose to *)
(*     abort here") so that both admissible behaviours are behaviours of    *)
(*     the model; everything after a stop is left open.                     *)
(*                                                                          *)
(* No constants, no variables: used by CoapTcp (state machine, exhaustive   *)
(* check, behaviour generation) and by CoapTcpEval (TLC as evaluator and    *)
(* judge of executions recorded from the real TcpConnection).               *)
EXTENDS Naturals, Sequences, FiniteSets

\* ---------------------------------------------------------------- bytes
BE1(v) == <<v>>
BE2(v) == <<v \div 256, v % 256>>
BE4(v) == <<v \div 16777216, (v \div 65536) % 256, (v \div 256) % 256, v % 256>>

Huge == 2147483647      \* "longer than anything" (TLC integers are 32 bit)

IsPrefix(a, b) == Len(a) <= Len(b) /\ \A i \in 1..Len(a) : a[i] = b[i]

RECURSIVE Flatten(_)
Flatten(ss) == IF ss = << >> THEN << >> ELSE Head(ss) \o Flatten(Tail(ss))

\* ------------------------------------------------------- message codes
EMPTY == 0
CSM == 225      \* 7.01
PING == 226     \* 7.02
PONG == 227     \* 7.03
RELEASE == 228  \* 7.04
ABORT == 229    \* 7.05
IsSig(c) == c >= 224
IsReq(c) == c >= 1 /\ c < 32
IsResp(c) == c >= 64 /\ c < 192
KnownSig == {CSM, PING, PONG, RELEASE, ABORT}

Msg(code, tok, opts, pay) == [code |-> code, tok |-> tok, opts |-> opts, pay |-> pay]

\* --------------------------------- RFC 7252 3.1: option delta / length
EncNib(v) == IF v < 13 THEN <<v, << >> >>
             ELSE IF v < 269 THEN <<13, BE1(v - 13)>>
             ELSE <<14, BE2(v - 269)>>                 \* v <= 65804

EncOpt(prev, o) == LET d == EncNib(o[1] - prev)
                       l == EncNib(Len(o[2]))
                   IN <<d[1] * 16 + l[1]>> \o d[2] \o l[2] \o o[2]

RECURSIVE EncOpts(_, _)
EncOpts(prev, opts) == IF opts = << >> THEN << >>
                       ELSE EncOpt(prev, Head(opts)) \o EncOpts(Head(opts)[1], Tail(opts))

\* --------------------------------------- RFC 8323 3.2: the frame itself
\* Len counts options + payload marker + payload; 0..12 in the nibble,
\* 13 -> one more byte (Len - 13), 14 -> two (Len - 269), 15 -> four (Len - 65805)
EncLen(n) == IF n < 13 THEN <<n, << >> >>
             ELSE IF n < 269 THEN <<13, BE1(n - 13)>>
             ELSE IF n < 65805 THEN <<14, BE2(n - 269)>>
             ELSE <<15, BE4(n - 65805)>>

\* everything that precedes the payload bytes, for a payload of `plen' bytes
\* whose content is irrelevant to the framing; `ob' are the encoded options
HeadOf(code, tok, ob, plen) ==
  LET n == Len(ob) + (IF plen = 0 THEN 0 ELSE 1 + plen)
      e == EncLen(n)
  IN <<e[1] * 16 + Len(tok)>> \o e[2] \o <<code>> \o tok \o ob
     \o (IF plen = 0 THEN << >> ELSE <<255>>)

FrameHead(m) == HeadOf(m.code, m.tok, EncOpts(0, m.opts), Len(m.pay))
Frame(m) == FrameHead(m) \o m.pay

\* ------------------------------------------------------------ receiving
NeedMore == [ok |-> FALSE, off |-> 0, tkl |-> 0, len |-> 0]

\* off = number of bytes up to and including the code byte
Header(s) ==
  IF Len(s) = 0 THEN NeedMore
  ELSE LET nib == s[1] \div 16
           ext == IF nib < 13 THEN 0 ELSE IF nib = 13 THEN 1 ELSE IF nib = 14 THEN 2 ELSE 4
       IN IF Len(s) < 1 + ext THEN NeedMore
          ELSE [ok |-> TRUE, off |-> 2 + ext, tkl |-> s[1] % 16,
                len |-> IF nib < 13 THEN nib
                        ELSE IF nib = 13 THEN s[2] + 13
                        ELSE IF nib = 14 THEN s[2] * 256 + s[3] + 269
                        ELSE IF s[2] >= 64 THEN Huge
                        ELSE s[2] * 16777216 + s[3] * 65536 + s[4] * 256 + s[5] + 65805]

Total(h) == IF h.len = Huge THEN Huge ELSE h.off + h.tkl + h.len

BadBody == [ok |-> FALSE, opts |-> << >>, pay |-> << >>, trail |-> FALSE]

\* options + payload of one frame; i = index of the next unread byte
RECURSIVE POpts(_, _, _, _)
POpts(b, i, prev, acc) ==
  IF i > Len(b) THEN [ok |-> TRUE, opts |-> acc, pay |-> << >>, trail |-> FALSE]
  ELSE IF b[i] = 255
    THEN [ok |-> TRUE, opts |-> acc, pay |-> SubSeq(b, i + 1, Len(b)), trail |-> i = Len(b)]
  ELSE LET dn == b[i] \div 16
           ln == b[i] % 16
           dx == IF dn < 13 THEN 0 ELSE IF dn = 13 THEN 1 ELSE 2
           lx == IF ln < 13 THEN 0 ELSE IF ln = 13 THEN 1 ELSE 2
       IN IF dn = 15 \/ ln = 15 THEN BadBody                 \* reserved nibble
          ELSE IF i + dx + lx > Len(b) THEN BadBody           \* extension cut off
          ELSE LET d == IF dn < 13 THEN dn ELSE IF dn = 13 THEN b[i + 1] + 13
                                           ELSE b[i + 1] * 256 + b[i + 2] + 269
                   j == i + 1 + dx
                   l == IF ln < 13 THEN ln ELSE IF ln = 13 THEN b[j] + 13
                                           ELSE b[j] * 256 + b[j + 1] + 269
                   v == j + lx
               IN IF v + l - 1 > Len(b) THEN BadBody          \* value cut off
                  ELSE POpts(b, v + l, prev + d, Append(acc, <<prev + d, SubSeq(b, v, v + l - 1)>>))

ParseBody(b) == POpts(b, 1, 0, << >>)

\* A signalling message's options live in a per-code number space in which
\* every number defined so far is even (elective): an odd number is an
\* unknown critical option.
HasCritical(opts) == \E i \in 1..Len(opts) : opts[i][1] % 2 = 1

\* Option numbers of string format (RFC 7252 table 4 + Proxy-*): the value
\* is supposed to be UTF-8.
StringOpts == {3, 8, 11, 15, 20, 35, 39}
Cont(x) == x >= 128 /\ x <= 191
RECURSIVE Utf8Ok(_, _)
Utf8Ok(v, i) ==
  IF i > Len(v) THEN TRUE
  ELSE LET b == v[i] IN
    IF b < 128 THEN Utf8Ok(v, i + 1)
    ELSE IF b >= 194 /\ b <= 223 THEN i + 1 <= Len(v) /\ Cont(v[i + 1]) /\ Utf8Ok(v, i + 2)
    ELSE IF b >= 224 /\ b <= 239
      THEN /\ i + 2 <= Len(v) /\ Cont(v[i + 1]) /\ Cont(v[i + 2])
           /\ (b = 224 => v[i + 1] >= 160) /\ (b = 237 => v[i + 1] <= 159)
           /\ Utf8Ok(v, i + 3)
    ELSE IF b >= 240 /\ b <= 244
      THEN /\ i + 3 <= Len(v) /\ Cont(v[i + 1]) /\ Cont(v[i + 2]) /\ Cont(v[i + 3])
           /\ (b = 240 => v[i + 1] >= 144) /\ (b = 244 => v[i + 1] <= 143)
           /\ Utf8Ok(v, i + 4)
    ELSE FALSE
StringsOk(opts) == \A i \in 1..Len(opts) : opts[i][1] \in StringOpts => Utf8Ok(opts[i][2], 1)

\* ------------------------------------------------- the receiver (C15)
\* spool   bytes received but not yet framed
\* csm     the peer's CSM has been processed
\* done    "no"    every complete frame so far has been handled as the statement says
\*         "fatal" a fatal frame was met: Abort written, connection closed
\*         "peer"  the peer's Release / Abort was processed
\*         "may"   the endpoint closed at a point where the statement allows but
\*                 does not demand it
\*         (anything but "no": what follows is not judged)
\* closed  the endpoint closed the connection
\* disp    requests / responses handed upwards, in order
\* wr      signalling written: <<"pong", token>> | <<"abort", << >> >>
\* nproc   frames consumed; stopAt  index of the frame at which `done' left "no"
\* nempty  code 0.00 frames consumed
\* pend    state of the locally pending requests ("pending" | "resp" | "neterr")
RxInit(npend) == [spool |-> << >>, csm |-> FALSE, done |-> "no", closed |-> FALSE,
                  disp |-> << >>, wr |-> << >>, nproc |-> 0, stopAt |-> 0, nempty |-> 0,
                  pend |-> [j \in 1..npend |-> "pending"]]

Stop(st, how) == [st EXCEPT !.done = how, !.closed = TRUE, !.stopAt = st.nproc + 1,
                            !.wr = IF how = "fatal" THEN Append(@, <<"abort", << >> >>) ELSE @]

PeerGone(st) == [st EXCEPT !.done = "peer", !.stopAt = st.nproc + 1,
                           !.pend = [j \in DOMAIN st.pend |->
                                       IF st.pend[j] = "pending" THEN "neterr" ELSE st.pend[j]]]

\* a response completes the (first) pending request that carries its token
Answer(pend, ptoks, tok) ==
  LET hit == {j \in DOMAIN pend : pend[j] = "pending" /\ ptoks[j] = tok}
  IN IF hit = {} THEN pend
     ELSE LET j0 == CHOOSE j \in hit : \A k \in hit : j <= k
          IN [pend EXCEPT ![j0] = "resp"]

RECURSIVE Drain(_, _, _, _)
Drain(st, took, max, ptoks) ==
  IF st.done # "no" THEN st
  ELSE LET h == Header(st.spool) IN
    IF ~h.ok THEN st
    ELSE IF h.tkl > 8 \/ Total(h) > max
      \* reserved token length / longer than the local maximum: the endpoint
      \* may react as soon as it can tell, and must once the frame is there
      THEN IF took \/ Total(h) <= Len(st.spool) THEN Stop(st, "fatal") ELSE st
    ELSE IF Total(h) > Len(st.spool) THEN st
    ELSE
      LET n    == Total(h)
          code == st.spool[h.off]
          tok  == SubSeq(st.spool, h.off + 1, h.off + h.tkl)
          p    == ParseBody(SubSeq(st.spool, h.off + h.tkl + 1, n))
          s1   == [st EXCEPT !.spool = SubSeq(st.spool, n + 1, Len(st.spool))]
          next == [s1 EXCEPT !.nproc = @ + 1]
      IN IF ~p.ok THEN Stop(s1, "fatal")
         ELSE IF code \in KnownSig /\ HasCritical(p.opts) THEN Stop(s1, "fatal")
         \* the first message has to be the CSM (RFC 8323 5.3); the statement does
         \* not say what becomes of a peer that starts with something else
         ELSE IF ~st.csm /\ code \notin {CSM, RELEASE, ABORT} /\ took THEN Stop(s1, "may")
         \* An option whose number is of string format in the request/response
         \* registry and whose value is not UTF-8: a request/response may be refused
         \* as unparsable or passed on as it is; for a signalling message the
         \* statement does not say with which registry its options are read, so
         \* refusing it (Abort + close) and treating it normally are both admissible.
         \* Nothing else is: if the endpoint closes here it must have written Abort.
         ELSE IF ~StringsOk(p.opts) /\ took THEN Stop(s1, "fatal")
         ELSE IF IsSig(code) THEN
           IF code = CSM THEN Drain([next EXCEPT !.csm = TRUE], took, max, ptoks)
           ELSE IF code = PING THEN Drain([next EXCEPT !.wr = Append(@, <<"pong", tok>>)], took, max, ptoks)
           ELSE IF code = PONG THEN Drain(next, took, max, ptoks)
           ELSE IF code \in {RELEASE, ABORT} THEN PeerGone(s1)
           \* unknown signalling code: the statement does not say
           ELSE IF took THEN Stop(s1, "may") ELSE Drain(next, took, max, ptoks)
         ELSE IF code = EMPTY THEN Drain([next EXCEPT !.nempty = @ + 1], took, max, ptoks)
         \* a trailing payload marker (RFC 7252: format error) may be refused or passed on
         ELSE IF p.trail /\ took THEN Stop(s1, "fatal")
         ELSE IF ~st.csm THEN Drain(next, took, max, ptoks)      \* never dispatched
         ELSE Drain([next EXCEPT !.disp = Append(@, Msg(code, tok, p.opts, p.pay)),
                                 !.pend = IF IsResp(code) THEN Answer(@, ptoks, tok) ELSE @],
                    took, max, ptoks)

RecvChunk(st, chunk, took, max, ptoks) ==
  Drain([st EXCEPT !.spool = @ \o chunk], took, max, ptoks)

\* ------------------------------------- reading what an endpoint wrote
\* all complete frames at the start of `s' as messages; `rest' is what is left
RECURSIVE PFrames(_, _)
PFrames(s, acc) ==
  LET h == Header(s) IN
  IF ~h.ok \/ Total(h) > Len(s) \/ h.tkl > 8 THEN [msgs |-> acc, rest |-> s]
  ELSE LET n == Total(h)
           p == ParseBody(SubSeq(s, h.off + h.tkl + 1, n))
       IN IF ~p.ok \/ p.trail THEN [msgs |-> acc, rest |-> s]
          ELSE PFrames(SubSeq(s, n + 1, Len(s)),
                       Append(acc, Msg(s[h.off], SubSeq(s, h.off + 1, h.off + h.tkl), p.opts, p.pay)))
ParseFrames(s) == PFrames(s, << >>)
=============================================================================
