SPECIFICATION Spec
CONSTANTS
  ATmin = 2
  ATmax = 3
  MaxRetransmit = 1
  Tol = 0
  NRemotes = 2
  NReqs = 2
  MidSpace = 3
  MaxTime = 10
  MaxEnv = 3
VIEW View
INVARIANT NoBad
INVARIANT OneOpenState
INVARIANT BacklogIffExchange
INVARIANT OpenAgrees
