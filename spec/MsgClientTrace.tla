--------------------------- MODULE MsgClientTrace ---------------------------
(* Batch validation of event traces recorded from the real aiocoap message  *)
(* layer (client role) against the monitor summary and property clauses of  *)
(* MsgClientObs.  One initial state per recorded trace; every event is      *)
(* folded into `obs'; at the end of each trace one line is printed with the *)
(* set of clauses found false and the position of the first failure.        *)
EXTENDS MsgClientObs, Json, IOUtils, TLC, TLCExt

Traces == JsonDeserialize(IOEnv.TRACE_FILE)

VARIABLES tid, l, obs, firstBad

tvars == <<tid, l, obs, firstBad>>

TInit == /\ tid \in 1..Len(Traces) /\ l = 1 /\ obs = ObsInit /\ firstBad = 0

TNext == /\ l <= Len(Traces[tid])
         /\ obs' = ObsEvent(obs, Traces[tid][l])
         /\ firstBad' = IF firstBad = 0 /\ obs'.bad # {} THEN l ELSE firstBad
         /\ l' = l + 1
         /\ UNCHANGED tid

TSpec == TInit /\ [][TNext]_tvars

Report == (l = Len(Traces[tid]) + 1) => PrintT(<<"TRACE", tid, l - 1, firstBad, obs.bad>>)
=============================================================================
