--------------------------- MODULE ReplayWindow ---------------------------
(* OSCORE replay protection (RFC 8613 sections 7.4, 8.2 and appendix B.1.2) *)
(* -- property C12.                                                         *)
(*                                                                          *)
(* Two layers, in the manner of MsgClientObs / MsgClient:                   *)
(*  - the MONITOR (`obs', ObsArrive): the statement's clauses over the set  *)
(*    `acc' of accepted sender sequence numbers, computed from observable   *)
(*    events only (number, authentic or forged, Echo carried, accepted or   *)
(*    rejected, optional projection of the window state);                   *)
(*  - the implementation-shaped MODEL (`st', Step): index + set of seen     *)
(*    numbers as in aiocoap.oscore.ReplayWindow (_index/_bitfield), the     *)
(*    check-before / strike-out-after-decryption order of unprotect(), and  *)
(*    Echo recovery from the uninitialised state.                           *)
(* The same operators are used by the exhaustive check (Spec), by edge and  *)
(* behaviour generation (EdgeSpec, -simulate) and by validation of traces   *)
(* recorded from the real code (ReplayWindowTrace).                         *)
EXTENDS Naturals, Integers, Sequences, FiniteSets, TLC

CONSTANTS Ws,        \* window sizes explored
          MaxN,      \* sequence numbers 0..MaxN
          MaxLen,    \* arrivals per behaviour
          Hows,      \* forgery flavours explored (subset of Forgeries)
          EchoKinds, \* Echo flavours explored (subset of Echos)
          Clients    \* senders sharing the peer's side of the one security context

(* Echo option of the request:                                              *)
(*   none   absent                                                          *)
(*   stale  a value no process ever issued                                  *)
(*   old    the value an EARLIER process lifetime issued (before the state  *)
(*          was lost), obtained then through a real 4.01 exchange           *)
(*   near   the issued value cut short or extended by a byte                *)
(*   fresh  the value this process issued                                   *)
Echos == {"none", "stale", "old", "near", "fresh"}

(* How a message that fails authentication was made:                        *)
(*   flip   a bit-flipped copy of the genuine message with that number (the *)
(*          very bytes that may arrive, untampered, later or earlier)       *)
(*   trunc  the genuine message with its ciphertext cut short               *)
(*   key    protected under ANOTHER context (other master secret) with the  *)
(*          same sender ID and that number                                  *)
(*   ctx    protected under a context with the same sender ID and secret    *)
(*          but another ID context (sent along as kid context)              *)
(*   piv    a genuine message of a neighbouring number whose Partial IV was *)
(*          rewritten to carry this number                                  *)
Forgeries == {"flip", "trunc", "key", "ctx", "piv"}
RespForgeries == {"flip", "trunc", "key"}       \* the ones that exist for responses

ASSUME Hows \subseteq Forgeries /\ EchoKinds \subseteq Echos

Max(S) == CHOOSE x \in S : \A y \in S : y <= x
MaxOr(S, d) == IF S = {} THEN d ELSE Max(S)
Max2(a, b) == IF a >= b THEN a ELSE b
ToSet(s) == {s[i] : i \in 1..Len(s)}

(***************************************************************************)
(* Monitor.  An event is a record [k, c, n, auth, how, echo, res, idx,     *)
(* seen]:                                                                  *)
(*   k     "req": a protected request with sender sequence number n       *)
(*         arrives;  "resp": the judged context unprotects a RESPONSE of   *)
(*         the peer that carries its own Partial IV n (it answers a        *)
(*         request this context sent: role reversal / Observe)             *)
(*   c     which of the peer's senders made it (vocabulary of the driver:  *)
(*         own message cache, own knowledge of the Echo value; the window  *)
(*         is one and the same)                                            *)
(*   auth  TRUE: protected by the genuine peer and unmodified              *)
(*         FALSE: valid-looking partial IV, fails authentication           *)
(*   how   "genuine" (= auth) or the forgery flavour, see Forgeries        *)
(*   res   "acc" unprotect() returned a message / "rej" it raised          *)
(*   idx, seen   projection of the window after the event: lowest tracked  *)
(*         number and set of numbers marked seen; idx = -1 when the        *)
(*         attributes are not available, -2 while uninitialised            *)
(***************************************************************************)
ObsInit(w, init, hasEcho) ==
  [ W      |-> w,
    hasEcho |-> hasEcho, \* Echo recovery configured (echo_recovery is not None): without it
                         \* no value can ever be "freshly issued by this process"
    rinit  |-> -1,       \* number of the response the window was initialised from (-1: none);
                         \* a request carrying that very number is not judged
    init   |-> init,     \* window initialised (FALSE: state lost, Echo needed)
    acc    |-> {},       \* numbers accepted so far
    hi     |-> -1,       \* largest accepted number (-1: none)
    floor  |-> 0,        \* numbers below have fallen out of the window
    forged |-> {},       \* numbers a forgery carried since they were last accepted
    pidx   |-> IF init THEN 0 ELSE -2,   \* projection after the previous event (start: the
    pseen  |-> {},                       \* empty window / the uninitialised one)
    bad    |-> {} ]      \* clauses found false

Flag(o, cs) == [o EXCEPT !.bad = @ \cup cs]

Fresh(o, e) == o.hasEcho /\ e.echo = "fresh"

MustAccept(o, e) ==
  e.auth /\ e.n # o.rinit
         /\ IF o.init THEN e.n \notin o.acc /\ e.n >= o.floor ELSE Fresh(o, e)

Judge(o, e) ==
  LET accd == e.res = "acc" IN
  IF accd /\ ~e.auth THEN {"C12_ForgeryNoEffect"}
  ELSE IF accd /\ ~o.init /\ ~Fresh(o, e) THEN {"C12_UninitialisedNeedsEcho"}
  ELSE IF accd /\ o.init /\ e.n \in o.acc THEN {"C12_AcceptAtMostOnce"}
  ELSE IF accd /\ o.init /\ e.n < o.floor
    THEN IF o.acc # {} /\ e.n <= o.hi - o.W
           THEN {"C12_BelowWindowRejected"}
           ELSE {"C12_UninitialisedNeedsEcho"}    \* below the number the window was recovered from
  ELSE IF ~accd /\ o.init /\ MustAccept(o, e)
    THEN IF e.n \in o.forged THEN {"C12_ForgeryNoEffect"}    \* a forgery blocked the genuine request
         ELSE IF e.n > o.hi THEN {"C12_AboveAllAccepted"}
         ELSE {"C12_InWindowUnseenAccepted"}
  ELSE {}
  \* a rejected request carrying the fresh Echo is not judged: the statement only
  \* says what must not be accepted before the Echo round trip

JudgeState(o, e) ==    \* a message failing authentication never marks or advances the window
  IF ~e.auth /\ e.idx # -1 /\ o.pidx # -1 /\ (e.idx # o.pidx \/ e.seen # o.pseen)
    THEN {"C12_ForgeryNoEffect"} ELSE {}

(* A response is not subject to the replay window (RFC 8613 section 8.4) and *)
(* must leave an initialised window as it is: otherwise numbers already      *)
(* struck out become acceptable again (seen below as C12_AcceptAtMostOnce /  *)
(* C12_BelowWindowRejected on later requests).  The one thing a response may *)
(* do is to initialise an uninitialised window when Echo recovery is         *)
(* configured (unprotect's try_initialize: it answers a request this process *)
(* sent, so it is as fresh as an echoed value); the monitor follows the code *)
(* there: afterwards the window is {seen: n, below: all}.                    *)
(* A response that fails authentication (forged, tampered, protected under   *)
(* another context) must have no effect whatsoever: not accepted, and the    *)
(* window -- initialised or not -- as before.                                *)
JudgeResp(o, e) ==
  IF ~e.auth
    THEN IF e.res = "acc" THEN {"C12_ForgeryNoEffect"}
         ELSE IF e.idx # -1 /\ o.pidx # -1 /\ (e.idx # o.pidx \/ e.seen # o.pseen)
           THEN {"C12_ForgeryNoEffect"} ELSE {}
  ELSE IF o.init /\ e.idx # -1 /\ o.pidx # -1 /\ (e.idx # o.pidx \/ e.seen # o.pseen)
    THEN {"C12_ResponseNoEffect"}
  ELSE IF ~o.init /\ ~o.hasEcho /\ e.idx >= 0
    THEN {"C12_UninitialisedNeedsEcho"}      \* initialised although nothing fresh can exist
  ELSE {}

ObsResp(o, e) ==
  LET o1 == Flag(o, JudgeResp(o, e))
      inits == ~o.init /\ o.hasEcho /\ e.res = "acc" /\ e.idx # -2   \* (-2: the code chose not to)
  IN [o1 EXCEPT !.rinit = IF inits THEN e.n ELSE @,
                !.init  = @ \/ inits,
                !.floor = IF inits THEN e.n ELSE @,
                !.pidx  = e.idx,
                !.pseen = e.seen]

ObsReq(o, e) ==
  LET accd == e.res = "acc"
      o1 == Flag(o, Judge(o, e) \cup JudgeState(o, e))
  IN [o1 EXCEPT
        !.acc    = IF accd THEN @ \cup {e.n} ELSE @,
        !.hi     = IF accd THEN Max2(@, e.n) ELSE @,
        !.floor  = IF ~accd THEN @
                   ELSE IF ~o.init THEN e.n
                   ELSE Max2(@, e.n - o.W + 1),
        !.init   = @ \/ accd,
        !.forged = IF ~e.auth THEN @ \cup {e.n} ELSE IF accd THEN @ \ {e.n} ELSE @,
        !.pidx   = e.idx,
        !.pseen  = e.seen ]

ObsArrive(o, e) == IF e.k = "resp" THEN ObsResp(o, e) ELSE ObsReq(o, e)

(* Which clauses are evaluated non-vacuously on event e in summary o (their  *)
(* antecedent holds): statistics for the evidence, no influence on verdicts. *)
Applicable(o, e) ==
  LET proj == e.idx # -1 /\ o.pidx # -1 IN
  IF e.k = "resp"
    THEN (IF ~e.auth THEN {"C12_ForgeryNoEffect"} ELSE {})
         \cup (IF e.auth /\ o.init /\ proj THEN {"C12_ResponseNoEffect"} ELSE {})
         \cup (IF e.auth /\ ~o.init /\ ~o.hasEcho THEN {"C12_UninitialisedNeedsEcho"} ELSE {})
    ELSE (IF ~e.auth \/ (o.init /\ e.n \in o.forged /\ MustAccept(o, e)) THEN {"C12_ForgeryNoEffect"} ELSE {})
         \cup (IF e.auth /\ ~o.init THEN {"C12_UninitialisedNeedsEcho"} ELSE {})
         \cup (IF e.auth /\ o.init /\ e.n \in o.acc THEN {"C12_AcceptAtMostOnce"} ELSE {})
         \cup (IF e.auth /\ o.init /\ e.n \notin o.acc /\ e.n < o.floor
                THEN IF o.acc # {} /\ e.n <= o.hi - o.W THEN {"C12_BelowWindowRejected"}
                     ELSE {"C12_UninitialisedNeedsEcho"}
                ELSE {})
         \cup (IF o.init /\ MustAccept(o, e)
                THEN IF e.n > o.hi THEN {"C12_AboveAllAccepted"} ELSE {"C12_InWindowUnseenAccepted"}
                ELSE {})

(***************************************************************************)
(* Implementation-shaped model                                             *)
(***************************************************************************)
StInit(init, hasEcho) == [init |-> init, index |-> 0, seen |-> {}, echo |-> hasEcho]

Valid(s, w, n) == n >= s.index /\ (n >= s.index + w \/ n \notin s.seen)     \* is_valid

Strike(s, w, n) ==                                                          \* strike_out
  LET over == n - (s.index + w - 1)
      ni   == IF over > 0 THEN s.index + over ELSE s.index
  IN [s EXCEPT !.index = ni, !.seen = {x \in s.seen : x >= ni} \cup {n}]

Step(s, w, n, auth, echo) ==                                                \* unprotect of a request
  IF ~s.init
    THEN IF auth /\ echo = "fresh" /\ s.echo                               \* initialize_from_freshlyseen
           THEN [res |-> "acc", st |-> [s EXCEPT !.init = TRUE, !.index = n, !.seen = {n}]]
           ELSE [res |-> "rej", st |-> s]
    ELSE IF auth /\ Valid(s, w, n)
           THEN [res |-> "acc", st |-> Strike(s, w, n)]
           ELSE [res |-> "rej", st |-> s]

StepResp(s, n, auth) ==                                                    \* unprotect of a response
  IF ~auth THEN [res |-> "rej", st |-> s]
  ELSE IF ~s.init /\ s.echo
    THEN [res |-> "acc", st |-> [s EXCEPT !.init = TRUE, !.index = n, !.seen = {n}]]
    ELSE [res |-> "acc", st |-> s]

ProjIdx(s) == IF s.init THEN s.index ELSE -2
ProjSeen(s) == IF s.init THEN s.seen ELSE {}

Event(k, c, n, how, echo, r) ==
  [k |-> k, c |-> c, n |-> n, auth |-> (how = "genuine"), how |-> how, echo |-> echo,
   res |-> r.res, idx |-> ProjIdx(r.st), seen |-> ProjSeen(r.st)]

VARIABLES st,    \* model state
          obs,   \* monitor summary
          len,   \* arrivals so far
          act,   \* last event (for replaying simulated behaviours; outside the VIEW)
          hist   \* EdgeSpec only: events on the path to this state (outside the VIEW)

vars == <<st, obs, len, act, hist>>

NoAct == [k |-> "start", c |-> 0, n |-> -1, auth |-> FALSE, how |-> "start", echo |-> "none", res |-> "start", idx |-> -1, seen |-> {}]

Init == \E w \in Ws, i \in BOOLEAN, h \in BOOLEAN :
          /\ st = StInit(i, h) /\ obs = ObsInit(w, i, h) /\ len = 0 /\ act = NoAct /\ hist = << >>

Arrive(c, n, how, echo) ==
  /\ len < MaxLen
  /\ LET r == Step(st, obs.W, n, how = "genuine", echo)
         e == Event("req", c, n, how, echo, r)
     IN /\ st' = r.st
        /\ obs' = ObsArrive(obs, e)
        /\ act' = e
  /\ len' = len + 1
  /\ UNCHANGED hist

Resp(n, how) ==
  /\ len < MaxLen
  /\ LET r == StepResp(st, n, how = "genuine")
         e == Event("resp", 1, n, how, "none", r)
     IN /\ st' = r.st
        /\ obs' = ObsArrive(obs, e)
        /\ act' = e
  /\ len' = len + 1
  /\ UNCHANGED hist

Next == \/ \E c \in Clients, n \in 0..MaxN, how \in {"genuine"} \cup Hows, echo \in EchoKinds : Arrive(c, n, how, echo)
        \/ \E n \in 0..MaxN, how \in {"genuine"} \cup (Hows \cap RespForgeries) : Resp(n, how)

Spec == Init /\ [][Next]_vars

(* For -simulate: the same behaviours, but the members of a class the model  *)
(* does not distinguish (forgery flavour, sender) and the number are drawn at *)
(* random by TLC (RandomElement follows -seed) instead                       *)
(* of being enumerated as successors (TLC generates every successor of every *)
(* step before it picks one).                                                *)
SimNext == \/ \E auth \in BOOLEAN, echo \in EchoKinds :
                Arrive(RandomElement(Clients), RandomElement(0..MaxN), IF auth THEN "genuine" ELSE RandomElement(Hows), echo)
           \/ \E auth \in BOOLEAN :
                Resp(RandomElement(0..MaxN), IF auth THEN "genuine" ELSE RandomElement(Hows \cap RespForgeries))

SimSpec == Init /\ [][SimNext]_vars

View == <<st, obs, len>>

(* Every transition of the implementation-shaped state graph, each with a   *)
(* shortest path from an initial state (TLC's breadth-first search keeps    *)
(* the first representative of every view class): printed for replay.       *)
EdgeStep(r, e) ==
  /\ PrintT(<<"EDGE", obs.W, obs.init, obs.hasEcho, hist, e>>)
  /\ st' = r.st
  /\ hist' = Append(hist, e)
  /\ UNCHANGED <<obs, len, act>>

EdgeNext ==
  \/ \E c \in Clients, n \in 0..MaxN, how \in {"genuine"} \cup Hows, echo \in EchoKinds :
       /\ (st.init => echo \in {"none", "fresh"})   \* on an initialised window the Echo option is ignored anyway
       /\ LET r == Step(st, obs.W, n, how = "genuine", echo) IN EdgeStep(r, Event("req", c, n, how, echo, r))
  \/ \E n \in 0..MaxN, how \in {"genuine"} \cup (Hows \cap RespForgeries) :
       LET r == StepResp(st, n, how = "genuine") IN EdgeStep(r, Event("resp", 1, n, how, "none", r))

EdgeSpec == Init /\ [][EdgeNext]_vars
EdgeView == <<st, obs.W, obs.init, obs.hasEcho>>

(***************************************************************************)
(* Clauses (invariants)                                                    *)
(***************************************************************************)
C12_AcceptAtMostOnce        == "C12_AcceptAtMostOnce" \notin obs.bad
C12_BelowWindowRejected     == "C12_BelowWindowRejected" \notin obs.bad
C12_AboveAllAccepted        == "C12_AboveAllAccepted" \notin obs.bad
C12_InWindowUnseenAccepted  == "C12_InWindowUnseenAccepted" \notin obs.bad
C12_ForgeryNoEffect         == "C12_ForgeryNoEffect" \notin obs.bad
C12_UninitialisedNeedsEcho  == "C12_UninitialisedNeedsEcho" \notin obs.bad
C12_ResponseNoEffect        == "C12_ResponseNoEffect" \notin obs.bad
NoBad == obs.bad = {}

(* design-level agreement of the index/bitfield representation with `acc' *)
Agreement ==
  /\ obs.init = st.init
  /\ obs.hi = MaxOr(obs.acc, -1)
  /\ st.init => /\ st.index = obs.floor
                /\ st.seen = {x \in obs.acc \cup (IF obs.rinit >= 0 THEN {obs.rinit} ELSE {}) : x >= st.index}
                /\ \A x \in st.seen : x < st.index + obs.W
=============================================================================
