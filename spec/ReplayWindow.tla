--------------------------- MODULE ReplayWindow ---------------------------
(* OSCORE replay protection (RFC 8613 sections 7.4, 8.2 and appendix B.1.2) *)
(* -- property C12.                                                         *)
(*                                                                          *)
(* Two layers, in the manner of MsgClientObs / MsgClient:                   *)
(*  - the MONITOR (`obs', ObsArrive): the statement's clauses over the set  *)
(*    `acc' of accepted sender sequence numbers, computed from observable   *)
(*    events only (number, authentic or forged, Echo carried, accepted or   *)
(*    rejected, optional projection of the window state);                   *)
(*  - the implementation-shaped MODEL (`st', Step): index + set of seen     *)
(*    numbers as in aiocoap.oscore.ReplayWindow (_index/_bitfield), the     *)
(*    check-before / strike-out-after-decryption order of unprotect(), and  *)
(*    Echo recovery from the uninitialised state.                           *)
(* The same operators are used by the exhaustive check (Spec), by edge and  *)
(* behaviour generation (EdgeSpec, -simulate) and by validation of traces   *)
(* recorded from the real code (ReplayWindowTrace).                         *)
EXTENDS Naturals, Integers, Sequences, FiniteSets, TLC

CONSTANTS Ws,        \* window sizes explored
          MaxN,      \* sequence numbers 0..MaxN
          MaxLen     \* arrivals per behaviour

Echos == {"none", "stale", "fresh"}   \* Echo option of the request: absent, a value this
                                      \* process did not issue, the value it issued

Max(S) == CHOOSE x \in S : \A y \in S : y <= x
MaxOr(S, d) == IF S = {} THEN d ELSE Max(S)
Max2(a, b) == IF a >= b THEN a ELSE b
ToSet(s) == {s[i] : i \in 1..Len(s)}

(***************************************************************************)
(* Monitor.  An arrival event is a record                                  *)
(*   [n, auth, echo, res, idx, seen]                                       *)
(*   auth  TRUE: protected by the genuine peer and unmodified              *)
(*         FALSE: valid-looking partial IV, fails authentication           *)
(*   res   "acc" unprotect() returned a message / "rej" it raised          *)
(*   idx, seen   projection of the window after the event: lowest tracked  *)
(*         number and set of numbers marked seen; idx = -1 when the        *)
(*         attributes are not available, -2 while uninitialised            *)
(***************************************************************************)
ObsInit(w, init) ==
  [ W      |-> w,
    init   |-> init,     \* window initialised (FALSE: state lost, Echo needed)
    acc    |-> {},       \* numbers accepted so far
    hi     |-> -1,       \* largest accepted number (-1: none)
    floor  |-> 0,        \* numbers below have fallen out of the window
    forged |-> {},       \* numbers a forgery carried since they were last accepted
    pidx   |-> -1,       \* projection after the previous event
    pseen  |-> {},
    bad    |-> {} ]      \* clauses found false

Flag(o, cs) == [o EXCEPT !.bad = @ \cup cs]

MustAccept(o, e) ==
  e.auth /\ IF o.init THEN e.n \notin o.acc /\ e.n >= o.floor ELSE e.echo = "fresh"

Judge(o, e) ==
  LET accd == e.res = "acc" IN
  IF accd /\ ~e.auth THEN {"C12_ForgeryNoEffect"}
  ELSE IF accd /\ ~o.init /\ e.echo # "fresh" THEN {"C12_UninitialisedNeedsEcho"}
  ELSE IF accd /\ o.init /\ e.n \in o.acc THEN {"C12_AcceptAtMostOnce"}
  ELSE IF accd /\ o.init /\ e.n < o.floor
    THEN IF o.acc # {} /\ e.n <= o.hi - o.W
           THEN {"C12_BelowWindowRejected"}
           ELSE {"C12_UninitialisedNeedsEcho"}    \* below the number the window was recovered from
  ELSE IF ~accd /\ o.init /\ MustAccept(o, e)
    THEN IF e.n \in o.forged THEN {"C12_ForgeryNoEffect"}    \* a forgery blocked the genuine request
         ELSE IF e.n > o.hi THEN {"C12_AboveAllAccepted"}
         ELSE {"C12_InWindowUnseenAccepted"}
  ELSE {}
  \* a rejected request carrying the fresh Echo is not judged: the statement only
  \* says what must not be accepted before the Echo round trip

JudgeState(o, e) ==    \* a message failing authentication never marks or advances the window
  IF ~e.auth /\ e.idx # -1 /\ o.pidx # -1 /\ (e.idx # o.pidx \/ e.seen # o.pseen)
    THEN {"C12_ForgeryNoEffect"} ELSE {}

ObsArrive(o, e) ==
  LET accd == e.res = "acc"
      o1 == Flag(o, Judge(o, e) \cup JudgeState(o, e))
  IN [o1 EXCEPT
        !.acc    = IF accd THEN @ \cup {e.n} ELSE @,
        !.hi     = IF accd THEN Max2(@, e.n) ELSE @,
        !.floor  = IF ~accd THEN @
                   ELSE IF ~o.init THEN e.n
                   ELSE Max2(@, e.n - o.W + 1),
        !.init   = @ \/ accd,
        !.forged = IF ~e.auth THEN @ \cup {e.n} ELSE IF accd THEN @ \ {e.n} ELSE @,
        !.pidx   = e.idx,
        !.pseen  = e.seen ]

(***************************************************************************)
(* Implementation-shaped model                                             *)
(***************************************************************************)
StInit(init) == [init |-> init, index |-> 0, seen |-> {}]

Valid(s, w, n) == n >= s.index /\ (n >= s.index + w \/ n \notin s.seen)     \* is_valid

Strike(s, w, n) ==                                                          \* strike_out
  LET over == n - (s.index + w - 1)
      ni   == IF over > 0 THEN s.index + over ELSE s.index
  IN [s EXCEPT !.index = ni, !.seen = {x \in s.seen : x >= ni} \cup {n}]

Step(s, w, n, auth, echo) ==                                                \* unprotect of a request
  IF ~s.init
    THEN IF auth /\ echo = "fresh"                                          \* initialize_from_freshlyseen
           THEN [res |-> "acc", st |-> [init |-> TRUE, index |-> n, seen |-> {n}]]
           ELSE [res |-> "rej", st |-> s]
    ELSE IF auth /\ Valid(s, w, n)
           THEN [res |-> "acc", st |-> Strike(s, w, n)]
           ELSE [res |-> "rej", st |-> s]

ProjIdx(s) == IF s.init THEN s.index ELSE -2
ProjSeen(s) == IF s.init THEN s.seen ELSE {}

Event(n, auth, echo, r) ==
  [n |-> n, auth |-> auth, echo |-> echo, res |-> r.res, idx |-> ProjIdx(r.st), seen |-> ProjSeen(r.st)]

VARIABLES st,    \* model state
          obs,   \* monitor summary
          len,   \* arrivals so far
          act,   \* last event (for replaying simulated behaviours; outside the VIEW)
          hist   \* EdgeSpec only: events on the path to this state (outside the VIEW)

vars == <<st, obs, len, act, hist>>

NoAct == [n |-> -1, auth |-> FALSE, echo |-> "none", res |-> "start", idx |-> -1, seen |-> {}]

Init == \E w \in Ws, i \in BOOLEAN :
          /\ st = StInit(i) /\ obs = ObsInit(w, i) /\ len = 0 /\ act = NoAct /\ hist = << >>

Arrive(n, auth, echo) ==
  /\ len < MaxLen
  /\ LET r == Step(st, obs.W, n, auth, echo)
         e == Event(n, auth, echo, r)
     IN /\ st' = r.st
        /\ obs' = ObsArrive(obs, e)
        /\ act' = e
  /\ len' = len + 1
  /\ UNCHANGED hist

Next == \E n \in 0..MaxN, auth \in BOOLEAN, echo \in Echos : Arrive(n, auth, echo)

Spec == Init /\ [][Next]_vars

View == <<st, obs, len>>

(* Every transition of the implementation-shaped state graph, each with a   *)
(* shortest path from an initial state (TLC's breadth-first search keeps    *)
(* the first representative of every view class): printed for replay.       *)
EdgeNext == \E n \in 0..MaxN, auth \in BOOLEAN, echo \in Echos :
  LET r == Step(st, obs.W, n, auth, echo)
      e == Event(n, auth, echo, r)
  IN /\ PrintT(<<"EDGE", obs.W, obs.init, hist, e>>)
     /\ st' = r.st
     /\ hist' = Append(hist, e)
     /\ UNCHANGED <<obs, len, act>>

EdgeSpec == Init /\ [][EdgeNext]_vars
EdgeView == <<st, obs.W, obs.init>>

(***************************************************************************)
(* Clauses (invariants)                                                    *)
(***************************************************************************)
C12_AcceptAtMostOnce        == "C12_AcceptAtMostOnce" \notin obs.bad
C12_BelowWindowRejected     == "C12_BelowWindowRejected" \notin obs.bad
C12_AboveAllAccepted        == "C12_AboveAllAccepted" \notin obs.bad
C12_InWindowUnseenAccepted  == "C12_InWindowUnseenAccepted" \notin obs.bad
C12_ForgeryNoEffect         == "C12_ForgeryNoEffect" \notin obs.bad
C12_UninitialisedNeedsEcho  == "C12_UninitialisedNeedsEcho" \notin obs.bad
NoBad == obs.bad = {}

(* design-level agreement of the index/bitfield representation with `acc' *)
Agreement ==
  /\ obs.init = st.init
  /\ obs.hi = MaxOr(obs.acc, -1)
  /\ st.init => /\ st.index = obs.floor
                /\ st.seen = {x \in obs.acc : x >= st.index}
                /\ \A x \in st.seen : x < st.index + obs.W
=============================================================================
