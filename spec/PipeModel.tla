----------------------------- MODULE PipeModel -----------------------------
(* aiocoap.pipe.Pipe: the meeting point between a request and its responses, *)
(* on which the terminal-event discipline of C09 (and of C02, C07, C08)      *)
(* rests.  State and actions mirror the class: the list of event callbacks   *)
(* with their interest flag (False once the pipe has ended), on_event /      *)
(* its unregister closure, on_interest_end, add_response, add_exception.     *)
(* Callbacks are of three kinds, by what they return to the pipe:            *)
(*   "once"   wants one event only (returns False at once)                   *)
(*   "tolast" wants events until a last one (returns not is_last)            *)
(*   "sticky" always returns True                                            *)
(* TLC explores all interleavings exhaustively; every behaviour is replayed  *)
(* on the real class and the abstract state compared after each action.      *)
EXTENDS Naturals, Sequences, FiniteSets, TLC

CONSTANTS MaxCbs, MaxEnds, MaxEvents

VARIABLES cbs,      \* Seq of [id, kind, interest]     _event_callbacks (in order)
          ended,    \* _event_callbacks is False
          got,      \* id -> number of real events delivered to callback id
          tomb,     \* id -> number of tombstones (None, None, is_last) delivered to callback id
          ends,     \* Seq over on_interest_end callbacks: [id, waiting (BOOLEAN), fired (Nat)]
          nev,      \* events added so far
          nid,      \* callbacks registered so far (ids are never reused)
          act       \* last action, for replay

vars == <<cbs, ended, got, tomb, ends, nev, nid, act>>

Kinds == {"once", "tolast", "sticky"}
Ids == 1..MaxCbs

AnyInterest(s) == \E i \in 1..Len(s) : s[i].interest
Keeps(kind, last) == CASE kind = "once" -> FALSE [] kind = "tolast" -> ~last [] kind = "sticky" -> TRUE

Init == /\ cbs = << >> /\ ended = FALSE /\ got = [i \in Ids |-> 0] /\ tomb = [i \in Ids |-> 0]
        /\ ends = << >> /\ nev = 0 /\ nid = 0 /\ act = <<"init">>

\* _end(): every remaining event callback gets the tombstone; waiting interest-end callbacks fire
DoEnd(s, e) ==
  /\ ended' = TRUE /\ cbs' = << >>
  /\ tomb' = [i \in Ids |-> tomb[i] + Cardinality({j \in 1..Len(s) : s[j].id = i})]
  /\ ends' = [j \in 1..Len(e) |-> IF e[j].waiting THEN [e[j] EXCEPT !.waiting = FALSE, !.fired = @ + 1] ELSE e[j]]

OnEvent(kind, interest) ==
  /\ ~ended /\ nid < MaxCbs
  /\ nid' = nid + 1
  /\ cbs' = Append(cbs, [id |-> nid + 1, kind |-> kind, interest |-> interest])
  /\ act' = <<"on_event", nid + 1, kind, interest>>
  /\ UNCHANGED <<ended, got, tomb, ends, nev>>

Unregister(id) ==
  /\ \E j \in 1..Len(cbs) : cbs[j].id = id
  /\ act' = <<"unregister", id>>
  /\ LET rest == SelectSeq(cbs, LAMBDA c : c.id # id)
     IN IF ended THEN UNCHANGED <<cbs, ended, got, tomb, ends>>
        ELSE IF AnyInterest(rest) THEN /\ cbs' = rest /\ UNCHANGED <<ended, got, tomb, ends>>
        ELSE /\ DoEnd(rest, ends) /\ UNCHANGED got
  /\ UNCHANGED <<nev, nid>>

OnInterestEnd ==
  /\ Len(ends) < MaxEnds
  /\ act' = <<"on_interest_end", Len(ends) + 1>>
  /\ IF ended \/ ~AnyInterest(cbs)
       THEN ends' = Append(ends, [id |-> Len(ends) + 1, waiting |-> FALSE, fired |-> 1])    \* called right away
       ELSE ends' = Append(ends, [id |-> Len(ends) + 1, waiting |-> TRUE, fired |-> 0])
  /\ UNCHANGED <<cbs, ended, got, tomb, nev, nid>>

\* add_response(is_last) / add_exception (always last): callbacks are served in order; those that
\* do not want more are dropped; waiting interest-end callbacks fire on a last event; if no interest
\* is left afterwards the pipe ends
AddEvent(last) ==
  /\ nev < MaxEvents
  /\ act' = <<"add_event", last>>
  /\ nev' = nev + 1 /\ UNCHANGED nid
  /\ IF ended THEN UNCHANGED <<cbs, ended, got, tomb, ends>>
     ELSE LET kept == SelectSeq(cbs, LAMBDA c : Keeps(c.kind, last))
              ends1 == [j \in 1..Len(ends) |-> IF ends[j].waiting /\ last
                                                 THEN [ends[j] EXCEPT !.waiting = FALSE, !.fired = @ + 1] ELSE ends[j]]
          IN /\ got' = [i \in Ids |-> got[i] + Cardinality({j \in 1..Len(cbs) : cbs[j].id = i})]
             /\ IF AnyInterest(kept)
                  THEN /\ cbs' = kept /\ ends' = ends1 /\ UNCHANGED <<ended, tomb>>
                  ELSE /\ ended' = TRUE /\ cbs' = << >>
                       /\ tomb' = [i \in Ids |-> tomb[i] + Cardinality({j \in 1..Len(kept) : kept[j].id = i})]
                       /\ ends' = [j \in 1..Len(ends1) |-> IF ends1[j].waiting
                                                             THEN [ends1[j] EXCEPT !.waiting = FALSE, !.fired = @ + 1]
                                                             ELSE ends1[j]]

Next == \/ \E k \in Kinds, i \in BOOLEAN : OnEvent(k, i)
        \/ \E id \in Ids : Unregister(id)
        \/ OnInterestEnd
        \/ \E last \in BOOLEAN : AddEvent(last)

Spec == Init /\ [][Next]_vars

(* -- the discipline ----------------------------------------------------------- *)
TypeOK == /\ ended \in BOOLEAN /\ (ended => cbs = << >>)
\* an interest-end callback is called exactly once, never more
EndCallbackAtMostOnce == \A j \in 1..Len(ends) : ends[j].fired <= 1
EndCallbackFiredIffNotWaiting == \A j \in 1..Len(ends) : ends[j].waiting <=> ends[j].fired = 0
\* an interest-end callback only ever waits while someone is interested
WaitingOnlyWhileInterest == \A j \in 1..Len(ends) : ends[j].waiting => AnyInterest(cbs)
\* once the pipe has ended nobody waits any more
EndedMeansAllFired == ended => \A j \in 1..Len(ends) : ends[j].fired = 1
\* a callback receives the tombstone at most once
TombstoneAtMostOnce == \A i \in Ids : tomb[i] <= 1
\* a callback that wanted one event only never gets a second real event
OnceGetsOne == \A j \in 1..Len(cbs) : cbs[j].kind = "once" => got[cbs[j].id] = 0
\* as long as someone is interested the pipe is alive
InterestKeepsAlive == AnyInterest(cbs) => ~ended
View == <<cbs, ended, got, tomb, ends, nev, nid>>
=============================================================================
