----------------------------- MODULE NstartObs -----------------------------
(* Property C14 for every confirmable message, requests and server-side     *)
(* separate responses alike: they share MessageManager's per-remote backlog *)
(* (messagemanager.py: send_message / _backlogs / _continue_backlog).       *)
(* An "item" is a message handed to the message layer: a client request     *)
(* (ready at its `submit' event) or the response of handler invocation      *)
(* `inv' (ready at its `release' event).  Whether an item is confirmable is *)
(* only visible when it is first transmitted, so the clauses are evaluated  *)
(* at first transmissions:                                                  *)
(*   C14_OneOpen     no other confirmable exchange with that remote is open *)
(*   C14_Fifo        no confirmable item to that remote that became ready   *)
(*                   later was transmitted earlier                          *)
(*   C14_AsSoonAs    it goes out at max(ready instant, instant the remote   *)
(*                   last became free), never later; non-confirmable items *)
(*                   go out at their ready instant                          *)
(*   C14_NoneForgotten  at quiescence every ready item has been transmitted *)
(*                   (or, for requests, failed)                             *)
(* Events: submit(q, r), release(inv), call(inv, r, tok), tx, rx, done, end *)
(* (uniform records of harness/drive.py).                                   *)
EXTENDS Naturals, Integers, Sequences, FiniteSets

CONSTANT GiveUp    \* units from the first transmission of a confirmable message to the instant it is given up
                   \* when neither ACK nor Reset arrives (exact for ACK_RANDOM_FACTOR = 1; a value beyond every
                   \* horizon where the schedule acknowledges everything in time)

Has(f, k) == k \in DOMAIN f
Put(f, k, v) == [x \in (DOMAIN f) \cup {k} |-> IF x = k THEN v ELSE f[x]]
Max(a, b) == IF a > b THEN a ELSE b

ObsInit == [ item |-> << >>,   \* id -> [r, ready (time), seq (order of readiness), tx (time or -1), con, failed]
             bytok |-> << >>,  \* <<r, tok>> -> item id of the response expected for that request
             ex   |-> << >>,   \* <<r, mid>> -> [open, dig, first]     confirmable exchanges
             freeAt |-> << >>, \* r -> instant the remote last became free
             n    |-> 0,
             bad  |-> {} ]

Flag(o, c) == [o EXCEPT !.bad = @ \cup {c}]
FlagIf(o, cond, c) == IF cond THEN Flag(o, c) ELSE o

Qid(q) == <<"q", q>>
Iid(i) == <<"i", i>>

\* an exchange that has been open for GiveUp units is given up: the endpoint is free again, and what was held back
\* behind it is dropped -- requests among it must fail (their done event says so), responses to the silent peer are
\* not owed any more
Expired(o, t) == {k \in DOMAIN o.ex : o.ex[k].open /\ o.ex[k].first + GiveUp <= t}
Expire(o, t) ==
  LET ks == Expired(o, t)
      rs == {k[1] : k \in ks}
      At(r) == LET k == CHOOSE k \in ks : k[1] = r IN o.ex[k].first + GiveUp
  IN IF ks = {} THEN o
     ELSE [o EXCEPT !.ex = [k \in DOMAIN @ |-> IF k \in ks THEN [@[k] EXCEPT !.open = FALSE] ELSE @[k]],
                    !.freeAt = [r \in (DOMAIN @) \cup rs |-> IF r \in rs THEN At(r) ELSE @[r]],
                    !.item = [id \in DOMAIN @ |->
                                IF @[id].r \in rs /\ @[id].ready >= 0 /\ @[id].ready <= At(@[id].r) /\ @[id].tx < 0
                                  THEN [@[id] EXCEPT !.dropped = TRUE] ELSE @[id]]]

NewItem(o, id, r, t) ==
  [o EXCEPT !.item = Put(@, id, [r |-> r, ready |-> t, seq |-> o.n + 1, tx |-> -1, con |-> FALSE, failed |-> FALSE, dropped |-> FALSE]),
            !.n = @ + 1]

ObsSubmit(o, e) == NewItem(o, Qid(e.q), e.r, e.t)

\* the handler of invocation inv has been called for request (r, tok): its response will carry that token
\* (a request that re-uses the token of an earlier request of that peer overrides it -- RFC 7641 re-registration,
\* clients that gave the first one up: what is still owed for the earlier one counts as failed, not as forgotten)
ObsCall(o, e) ==
  LET k == <<e.r, e.tok>>
      o1 == IF Has(o.bytok, k) /\ o.item[o.bytok[k]].tx < 0 THEN [o EXCEPT !.item[o.bytok[k]].failed = TRUE] ELSE o
  IN [o1 EXCEPT !.bytok = Put(@, k, Iid(e.inv)),
                !.item = Put(@, Iid(e.inv), [r |-> e.r, ready |-> -1, seq |-> 0, tx |-> -1, con |-> FALSE, failed |-> FALSE, dropped |-> FALSE])]

ObsRelease(o, e) ==
  IF Has(o.item, Iid(e.inv)) /\ o.item[Iid(e.inv)].ready < 0 /\ e.x \in {"ok", "nocode"}
    THEN [o EXCEPT !.item[Iid(e.inv)].ready = e.t, !.item[Iid(e.inv)].seq = o.n + 1, !.n = @ + 1]
    ELSE o

OpenTo(o, r) == {k \in DOMAIN o.ex : k[1] = r /\ o.ex[k].open}
FreeAt(o, r) == IF Has(o.freeAt, r) THEN o.freeAt[r] ELSE 0

ObsFirstTx(o, e, id) ==
  LET it == o.item[id]
      o1 == [o EXCEPT !.item[id].tx = e.t, !.item[id].con = (e.ty = "CON")]
  IN IF e.ty = "CON"
       THEN LET later == {j \in DOMAIN o.item : o.item[j].r = it.r /\ o.item[j].con /\ o.item[j].tx >= 0
                                               /\ o.item[j].seq > it.seq /\ j # id}
                o2 == FlagIf(o1, OpenTo(o, it.r) # {}, "C14_OneOpen")
                o3 == FlagIf(o2, later # {}, "C14_Fifo")
                o4 == FlagIf(o3, later = {} /\ e.t # Max(it.ready, FreeAt(o, it.r)), "C14_AsSoonAs")
            IN [o4 EXCEPT !.ex = Put(@, <<e.r, e.mid>>, [open |-> TRUE, dig |-> e.dig, first |-> e.t])]
     ELSE IF e.ty = "NON" THEN FlagIf(o1, e.t # it.ready, "C14_AsSoonAs")
     ELSE o1        \* a piggy-backed response: not a message of its own at this layer

ObsTx(o, e) ==
  \* a further copy of a confirmable message seen before is no item's first transmission
  IF e.ty = "CON" /\ Has(o.ex, <<e.r, e.mid>>) /\ o.ex[<<e.r, e.mid>>].dig = e.dig THEN o
  ELSE IF e.cls = "req" /\ e.q # 0 /\ Has(o.item, Qid(e.q)) /\ o.item[Qid(e.q)].tx < 0
    THEN ObsFirstTx(o, e, Qid(e.q))
  ELSE IF e.cls = "resp" /\ Has(o.bytok, <<e.r, e.tok>>)
          /\ o.item[o.bytok[<<e.r, e.tok>>]].tx < 0 /\ o.item[o.bytok[<<e.r, e.tok>>]].ready >= 0
    THEN ObsFirstTx(o, e, o.bytok[<<e.r, e.tok>>])
  ELSE o

ObsRx(o, e) ==
  LET k == <<e.r, e.mid>> IN
  IF e.ty \in {"ACK", "RST"} /\ Has(o.ex, k) /\ o.ex[k].open
    THEN [o EXCEPT !.ex[k].open = FALSE, !.freeAt = Put(@, e.r, e.t)]
    ELSE o

ObsDone(o, e) ==
  IF Has(o.item, Qid(e.q)) /\ e.cls # "resp" THEN [o EXCEPT !.item[Qid(e.q)].failed = TRUE] ELSE o

ObsEnd(o, e) ==
  FlagIf(o, \E id \in DOMAIN o.item : /\ o.item[id].ready >= 0 /\ o.item[id].tx < 0 /\ ~o.item[id].failed
                                        /\ ~(id[1] = "i" /\ o.item[id].dropped),
         "C14_NoneForgotten")

ObsEvent(o0, e) ==
  LET o == Expire(o0, e.t) IN
  CASE e.k = "submit"  -> ObsSubmit(o, e)
    [] e.k = "call"    -> ObsCall(o, e)
    [] e.k = "release" -> ObsRelease(o, e)
    [] e.k = "tx"      -> ObsTx(o, e)
    [] e.k = "rx"      -> ObsRx(o, e)
    [] e.k = "done"    -> ObsDone(o, e)
    [] e.k = "end"     -> ObsEnd(o, e)
    [] OTHER           -> o
=============================================================================
