--------------------------- MODULE SeqPersist ---------------------------
(* Persistence of the OSCORE sender sequence number and replay window of a *)
(* file-backed security context across restarts, crashes and exhaustion    *)
(* (aiocoap.oscore.FilesystemSecurityContext; RFC 8613 appendix B.1) --    *)
(* property C13.                                                           *)
(*                                                                         *)
(* MONITOR (`obs', ObsEvent): the statement's clauses over operation-level *)
(* events (issued n / refused / accept n / reject n / crash / clean /      *)
(* load).                                                                  *)
(* MODEL (`s', pure operators Load, BeginProtect, BeginUnprotect,          *)
(* BeginClean, Effect, Finish, Crash): memory <<ssn, persisted, chunk,     *)
(* window-persisted flag, window>>, disk <<sequence.json: absent | [next,  *)
(* received: window | "unknown"], temp files>>, and the operation in       *)
(* flight with the number of file-system effects of _store() already done  *)
(* (1 mkstemp, 2 write+flush, 3 fsync, 4 replace).  A crash is possible    *)
(* between any two effects; memory is lost, a temp file may stay behind.   *)
(* The same operators serve the exhaustive check (Spec), edge / behaviour  *)
(* generation (EdgeSpec, -simulate) and the validation of traces recorded  *)
(* from the real code (SeqPersistTrace).                                   *)
EXTENDS Naturals, Integers, Sequences, FiniteSets, TLC

CONSTANTS ChunkStarts,    \* values of sequence_number_chunksize_start explored
          ChunkLimit,     \* sequence_number_chunksize_limit
          MaxSeq,         \* scaled MAX_SEQNO: numbers >= MaxSeq must never be issued
          WSize,          \* replay window size of the model
          Jumps,          \* how many numbers the peer may skip before a fresh request (0 \in Jumps):
                          \* lost messages, or a peer that restarted and skipped its own chunk;
                          \* 2*WSize-2 still shifts the window, 2*WSize-1 and more leave it behind
          MaxJump,        \* number of fresh requests that may skip numbers
          MaxProtect, MaxUnprotect, MaxCrash, MaxClean,   \* budgets of the environment
          MaxRespond,     \* responses (and rendered Echo errors) the context protects
          MaxResponse     \* responses of the peer the context unprotects

(* what only DoRespond / DoEchoErr / DoResponse read is not tracked in runs without them *)
TrackAnswers   == MaxRespond > 0
TrackResponses == MaxResponse > 0

Min2(a, b) == IF a <= b THEN a ELSE b
Max2(a, b) == IF a >= b THEN a ELSE b

(***************************************************************************)
(* Monitor                                                                 *)
(***************************************************************************)
ObsInit(mx) ==
  [ mx      |-> mx,      \* first number that must be refused
    issued  |-> {},      \* every number ever returned by protect(), as a set of
                         \* disjoint intervals <<lo, hi>>
    last    |-> -1,      \* last number issued in this lifetime
    accOld  |-> {},      \* request numbers accepted in earlier lifetimes
    accNow  |-> {},      \* ... in this lifetime
    stop    |-> "none",  \* how the previous lifetime ended: none | crash | clean
    echoed  |-> FALSE,   \* a request carrying this lifetime's Echo was accepted
    reused  |-> {},      \* request numbers n whose nonce <<peer, n>> the context has
                         \* encrypted with under its sender key (a response that re-uses
                         \* the request's nonce instead of taking a number of its own)
    bad     |-> {} ]

Flag(o, cs) == [o EXCEPT !.bad = @ \cup cs]

Covered(ivs, n) == \E iv \in ivs : iv[1] <= n /\ n <= iv[2]
AddTo(ivs, n) ==
  IF Covered(ivs, n) THEN ivs
  ELSE IF \E iv \in ivs : iv[2] = n - 1
    THEN LET iv == CHOOSE x \in ivs : x[2] = n - 1 IN (ivs \ {iv}) \cup {<<iv[1], n>>}
    ELSE ivs \cup {<<n, n>>}

(* e = [k, n, echo]                                                        *)
ObsEvent(o, e) ==
  CASE e.k = "issued" ->
         LET cs == (IF Covered(o.issued, e.n) THEN {"C13_NoReuse"} ELSE {})
                   \cup (IF e.n <= o.last THEN {"C13_StrictlyIncreasing"} ELSE {})
                   \cup (IF e.n >= o.mx THEN {"C13_RefuseAtMax"} ELSE {})
         IN [Flag(o, cs) EXCEPT !.issued = AddTo(@, e.n), !.last = e.n]
    [] e.k = "reused" ->    \* the nonce is <<generator, partial IV>>: own numbers above, the peer's here
         [Flag(o, IF e.n \in o.reused THEN {"C13_NoReuse"} ELSE {}) EXCEPT !.reused = @ \cup {e.n}]
    [] e.k = "accept" ->
         LET cs == IF e.n \in o.accOld
                     THEN IF o.stop = "crash" THEN {"C13_UncleanMeansUnknown"}
                          ELSE {"C13_CleanKeepsWindow"}
                     ELSE {}
         IN [Flag(o, cs) EXCEPT !.accNow = @ \cup {e.n},
                                !.echoed = @ \/ e.echo = "fresh"]
    [] e.k = "crash" -> [o EXCEPT !.stop = "crash", !.accOld = @ \cup o.accNow, !.accNow = {}]
    [] e.k = "clean" -> [o EXCEPT !.stop = "clean", !.accOld = @ \cup o.accNow, !.accNow = {}]
    [] e.k = "load"  -> [o EXCEPT !.last = -1, !.echoed = FALSE]
    [] OTHER -> o         \* refused, reject: nothing the statement forbids

(***************************************************************************)
(* Model                                                                   *)
(***************************************************************************)
NoWin    == [init |-> FALSE, index |-> 0, seen |-> {}]
EmptyWin == [init |-> TRUE,  index |-> 0, seen |-> {}]
NoDisk   == [ex |-> FALSE, next |-> 0, unk |-> FALSE, win |-> NoWin]
Idle     == [k |-> "idle", step |-> 0, n |-> 0, echo |-> "none", data |-> NoDisk]

Valid(w, size, n) == n >= w.index /\ (n >= w.index + size \/ n \notin w.seen)

(* ReplayWindow.strike_out, by how far n overshoots the upper edge:            *)
(*   inside   over <= 0          the number is marked, the window stays        *)
(*   shift    0 < over < size    the window moves up by `over', the part of    *)
(*                               it that is still covered survives             *)
(*   past     over >= size       the number lies beyond index + 2*size - 2:    *)
(*                               nothing of the old window survives            *)
(* Whatever the regime, strike_out ends with the strike_out_callback (see      *)
(* BeginUnprotect: the first change of a life time rewrites a persisted window *)
(* as "unknown").                                                              *)
Overshoot(w, size, n) == n - (w.index + size - 1)
Regime(w, size, n) ==
  IF Overshoot(w, size, n) <= 0 THEN "inside"
  ELSE IF Overshoot(w, size, n) < size THEN "shift" ELSE "past"
Strike(w, size, n) ==
  LET over == Overshoot(w, size, n) IN
  CASE over <= 0   -> [w EXCEPT !.seen = @ \cup {n}]
    [] over < size -> [w EXCEPT !.index = @ + over,
                                !.seen = {x \in @ : x >= w.index + over} \cup {n}]
    [] OTHER       -> [w EXCEPT !.index = n - size + 1, !.seen = {n}]
(* the one-formula reading of the code (shift by the overshoot, whatever it is) *)
StrikeByShift(w, size, n) ==
  LET over == Overshoot(w, size, n)
      ni   == IF over > 0 THEN w.index + over ELSE w.index
  IN [w EXCEPT !.index = ni, !.seen = {x \in w.seen : x >= ni} \cup {n}]
ASSUME StrikeRegimesAgree ==
  \A i \in 0..2 : \A seen \in SUBSET (i..(i + WSize - 1)) : \A n \in i..(i + 3 * WSize + 1) :
    LET w == [init |-> TRUE, index |-> i, seen |-> seen]
    IN Valid(w, WSize, n) => Strike(w, WSize, n) = StrikeByShift(w, WSize, n)

Dead(s) == [s EXCEPT !.alive = FALSE, !.ssn = 0, !.pers = 0, !.chunk = 0, !.rwp = FALSE,
                     !.win = NoWin, !.op = Idle, !.req = FALSE, !.held = {}, !.fresh = {}, !.err = FALSE]

SInit(cs, cl, mx, w) ==
  [ cs |-> cs, cl |-> cl, mx |-> mx, w |-> w,
    alive |-> FALSE, ssn |-> 0, pers |-> 0, chunk |-> 0, rwp |-> FALSE, win |-> NoWin,
    req   |-> FALSE,   \* a request of its own was protected in this lifetime (it can be answered)
    held  |-> {},      \* requests accepted in this lifetime (the application holds their request_id)
    fresh |-> {},      \* ... whose nonce may still be re-used by a response: accepted through the
                       \* window (RequestIdentifiers.can_reuse_nonce), not yet answered
    err   |-> FALSE,   \* a ReplayErrorWithEcho is waiting to be rendered (4.01 + Echo)
    disk |-> NoDisk, tmp |-> 0, op |-> Idle ]

(* __init__ / _load *)
Load(s) ==
  LET d == s.disk IN
  [s EXCEPT !.alive = TRUE,
            !.ssn   = IF d.ex THEN d.next ELSE 0,
            !.pers  = IF d.ex THEN d.next ELSE 0,
            !.chunk = s.cs,
            !.win   = IF ~d.ex THEN EmptyWin ELSE IF d.unk THEN NoWin ELSE d.win,
            !.rwp   = IF ~d.ex THEN TRUE ELSE ~d.unk,
            !.op    = Idle]

(* what _store() writes *)
Snapshot(s) == [ex |-> TRUE, next |-> s.pers, unk |-> ~s.rwp, win |-> IF s.rwp THEN s.win ELSE NoWin]

Refuses(s) == s.ssn >= s.mx                      \* new_sequence_number raises ContextUnavailable

(* new_sequence_number + post_seqnoincrease up to the call of _store; kind = what is
   protected with the new number: "protect" a request, "respond" a response that can not
   (or no longer) re-use the request's nonce, "echoerr" the 4.01 + Echo *)
BeginIssue(s, kind) ==
  LET n  == s.ssn
      s1 == [s EXCEPT !.ssn = n + 1, !.req = @ \/ (TrackResponses /\ kind = "protect")]
  IN IF n + 1 > s.pers
       THEN LET s2 == [s1 EXCEPT !.pers = @ + s.chunk, !.chunk = Min2(2 * @, s.cl)]
            IN [s2 EXCEPT !.op = [k |-> kind, step |-> 0, n |-> n, echo |-> "none", data |-> Snapshot(s2)]]
       ELSE [s1 EXCEPT !.op = [k |-> kind, step |-> 4, n |-> n, echo |-> "none", data |-> NoDisk]]
BeginProtect(s) == BeginIssue(s, "protect")

(* protect(response, request_id) for a request accepted in this lifetime: the request's nonce
   <<peer, n>> exactly once, and only if the request went through the replay window *)
ReusesNonce(s, n) == n \in s.fresh
RespondReusing(s, n) == [s EXCEPT !.fresh = @ \ {n}]

(* a request that is turned down while the window is unknown leaves a ReplayErrorWithEcho
   behind; rendering it (to_message) protects a 4.01 with a number of the context's own *)
Rejected(s, n) == IF TrackAnswers /\ ~s.win.init THEN [s EXCEPT !.err = TRUE] ELSE s

(* unprotect of the peer's response to a request of this lifetime: without a partial IV of its
   own it tells nothing about the peer's numbers; with one (a notification, piv >= 0) an
   unknown window is initialised from it (nothing stored); a known window is not touched *)
Response(s, piv) ==
  IF piv >= 0 /\ ~s.win.init
    THEN [s EXCEPT !.win = [init |-> TRUE, index |-> piv, seen |-> {piv}]]
    ELSE s

(* unprotect of an authentic request with number n: window check, strike-out,
   _replay_window_changed, or Echo recovery *)
Accepts(s, n, echo) ==
  IF s.win.init THEN Valid(s.win, s.w, n) ELSE echo = "fresh"

BeginUnprotect(s, n, echo) ==
  IF ~s.win.init
    THEN \* initialize_from_freshlyseen: no callback, nothing stored; the request_id was made
         \* while the number could not be checked: its nonce is not for re-use
         [s EXCEPT !.win = [init |-> TRUE, index |-> n, seen |-> {n}],
                   !.held = IF TrackAnswers THEN @ \cup {n} ELSE @,
                   !.op = [k |-> "unprotect", step |-> 4, n |-> n, echo |-> echo, data |-> NoDisk]]
    ELSE LET s1 == [s EXCEPT !.win = Strike(s.win, s.w, n),
                             !.held = IF TrackAnswers THEN @ \cup {n} ELSE @,
                             !.fresh = IF TrackAnswers THEN @ \cup {n} ELSE @]
         IN IF s.rwp
              THEN LET s2 == [s1 EXCEPT !.rwp = FALSE]
                   IN [s2 EXCEPT !.op = [k |-> "unprotect", step |-> 0, n |-> n, echo |-> echo, data |-> Snapshot(s2)]]
              ELSE [s1 EXCEPT !.op = [k |-> "unprotect", step |-> 4, n |-> n, echo |-> echo, data |-> NoDisk]]

(* _destroy *)
BeginClean(s) ==
  LET s1 == [s EXCEPT !.rwp = TRUE, !.pers = s.ssn]
  IN [s1 EXCEPT !.op = [k |-> "clean", step |-> 0, n |-> 0, echo |-> "none", data |-> Snapshot(s1)]]

(* one file-system effect of _store *)
Effect(s) ==
  CASE s.op.step = 0 -> [s EXCEPT !.tmp = @ + 1, !.op.step = 1]                  \* mkstemp
    [] s.op.step = 1 -> [s EXCEPT !.op.step = 2]                                 \* write + flush
    [] s.op.step = 2 -> [s EXCEPT !.op.step = 3]                                 \* fsync
    [] s.op.step = 3 -> [s EXCEPT !.disk = s.op.data, !.tmp = @ - 1, !.op.step = 4]   \* replace

Effects(s, c) ==     \* c effects in a row
  IF c = 0 THEN s ELSE IF c = 1 THEN Effect(s) ELSE IF c = 2 THEN Effect(Effect(s))
  ELSE IF c = 3 THEN Effect(Effect(Effect(s))) ELSE Effect(Effect(Effect(Effect(s))))

Finish(s) == IF s.op.k = "clean" THEN Dead(s) ELSE [s EXCEPT !.op = Idle]
FinishEvent(s) ==
  [k |-> CASE s.op.k \in {"protect", "respond", "echoerr"} -> "issued"
           [] s.op.k = "unprotect" -> "accept" [] OTHER -> "clean",
   n |-> s.op.n, echo |-> s.op.echo]

Crash(s) == Dead(s)        \* the disk, including a temp file in flight, stays as it is

(* complete operations (used for trace validation of the real code, where   *)
(* one recorded event is one API call)                                      *)
RunToEnd(s) == Finish(Effects(s, 4 - s.op.step))
CrashAfter(s, c) == Crash(Effects(s, Min2(c, 4 - s.op.step)))

(***************************************************************************)
(* Closed system                                                           *)
(***************************************************************************)
VARIABLES s,      \* model state
          env,    \* peer and budgets
          obs,    \* monitor summary
          act,    \* last step (label + arguments), outside the VIEW
          hist    \* EdgeSpec only: steps on the path to this state, outside the VIEW

vars == <<s, env, obs, act, hist>>

EnvInit == [ peerNext |-> 0,        \* next fresh request number of the peer
             sent     |-> << >>,    \* number -> lifetime whose Echo it carried (0: none)
             life     |-> 0,
             np |-> 0, nu |-> 0, nc |-> 0, nk |-> 0, nj |-> 0, nr |-> 0, nq |-> 0 ]

Has(f, k) == k \in DOMAIN f
Put(f, k, v) == [x \in (DOMAIN f) \cup {k} |-> IF x = k THEN v ELSE f[x]]

Step(k, n, echo) == [k |-> k, n |-> n, echo |-> echo]

Init == \E cs \in ChunkStarts :
          /\ s = SInit(cs, ChunkLimit, MaxSeq, WSize)
          /\ env = EnvInit
          /\ obs = ObsInit(MaxSeq)
          /\ act = Step("start", cs, "none")
          /\ hist = << >>

DoLoad ==
  /\ ~s.alive
  /\ s' = Load(s)
  /\ env' = [env EXCEPT !.life = @ + 1]
  /\ obs' = ObsEvent(obs, Step("load", 0, "none"))
  /\ act' = Step("load", 0, "none")

DoProtect ==
  /\ s.alive /\ s.op.k = "idle" /\ env.np < MaxProtect
  /\ env' = [env EXCEPT !.np = @ + 1]
  /\ IF Refuses(s)
       THEN /\ s' = s
            /\ obs' = ObsEvent(obs, Step("refused", 0, "none"))
            /\ act' = Step("refused", 0, "none")
       ELSE /\ s' = BeginProtect(s)
            /\ obs' = obs
            /\ act' = Step("protect", s.ssn, "none")

(* the peer sends a fresh request (possibly answering this lifetime's Echo
   challenge; possibly after skipping numbers, as far as beyond the whole
   window), or somebody replays an earlier one unchanged *)
FreshNumbers == {env.peerNext + j : j \in (IF env.nj < MaxJump THEN Jumps ELSE {0})}

DoUnprotect ==
  /\ s.alive /\ s.op.k = "idle" /\ env.nu < MaxUnprotect
  /\ \E fresh \in BOOLEAN, wantEcho \in BOOLEAN :
       \E n \in (IF fresh THEN FreshNumbers ELSE DOMAIN env.sent) :
         LET echo == IF fresh THEN (IF wantEcho THEN "fresh" ELSE "none")
                     ELSE IF env.sent[n] = env.life THEN "fresh"
                     ELSE IF env.sent[n] = 0 THEN "none" ELSE "stale"
         IN /\ (~fresh => ~wantEcho)
            /\ env' = [env EXCEPT !.nu = @ + 1,
                                  !.nj = IF fresh /\ n > env.peerNext THEN @ + 1 ELSE @,
                                  !.peerNext = IF fresh THEN n + 1 ELSE @,
                                  !.sent = IF fresh THEN Put(@, n, IF wantEcho THEN env.life ELSE 0) ELSE @]
            /\ IF Accepts(s, n, echo)
                 THEN /\ s' = BeginUnprotect(s, n, echo)
                      /\ obs' = obs
                      /\ act' = Step("unprotect", n, echo)
                 ELSE /\ s' = Rejected(s, n)
                      /\ obs' = ObsEvent(obs, Step("reject", n, echo))
                      /\ act' = Step("reject", n, echo)

(* the application answers a request it accepted in this lifetime (again: a notification) *)
DoRespond ==
  /\ s.alive /\ s.op.k = "idle" /\ env.nr < MaxRespond
  /\ env' = [env EXCEPT !.nr = @ + 1]
  /\ \E n \in s.held :
       IF ReusesNonce(s, n)
         THEN /\ s' = RespondReusing(s, n)
              /\ obs' = ObsEvent(obs, Step("reused", n, "none"))
              /\ act' = Step("reused", n, "none")
         ELSE IF Refuses(s)
           THEN /\ s' = s
                /\ obs' = ObsEvent(obs, Step("refused", 0, "none"))
                /\ act' = Step("norespond", n, "none")
           ELSE /\ s' = BeginIssue(s, "respond")
                /\ obs' = obs
                /\ act' = Step("respond", n, "none")

(* the 4.01 + Echo for a request turned down while the window is unknown is rendered *)
DoEchoErr ==
  /\ s.alive /\ s.op.k = "idle" /\ s.err /\ env.nr < MaxRespond
  /\ env' = [env EXCEPT !.nr = @ + 1]
  /\ IF Refuses(s)
       THEN /\ s' = [s EXCEPT !.err = FALSE]
            /\ obs' = ObsEvent(obs, Step("refused", 0, "none"))
            /\ act' = Step("noechoerr", 0, "none")
       ELSE /\ s' = BeginIssue([s EXCEPT !.err = FALSE], "echoerr")
            /\ obs' = obs
            /\ act' = Step("echoerr", 0, "none")

(* the peer answers a request of this lifetime, without or with a partial IV of its own
   (which comes out of the same sequence as its request numbers) *)
DoResponse ==
  /\ s.alive /\ s.op.k = "idle" /\ s.req /\ env.nq < MaxResponse
  /\ \E piv \in BOOLEAN :
       /\ s' = Response(s, IF piv THEN env.peerNext ELSE -1)
       /\ env' = [env EXCEPT !.nq = @ + 1, !.peerNext = IF piv THEN @ + 1 ELSE @]
       /\ act' = Step("response", IF piv THEN env.peerNext ELSE 0, IF piv THEN "piv" ELSE "none")
  /\ obs' = obs

DoClean ==
  /\ s.alive /\ s.op.k = "idle" /\ env.nk < MaxClean
  /\ s' = BeginClean(s)
  /\ env' = [env EXCEPT !.nk = @ + 1]
  /\ obs' = obs
  /\ act' = Step("cleanbegin", 0, "none")

DoEffect ==
  /\ s.alive /\ s.op.k # "idle" /\ s.op.step < 4
  /\ s' = Effect(s)
  /\ act' = Step("effect", s.op.step + 1, "none")
  /\ UNCHANGED <<env, obs>>

DoFinish ==
  /\ s.alive /\ s.op.k # "idle" /\ s.op.step = 4
  /\ s' = Finish(s)
  /\ obs' = ObsEvent(obs, FinishEvent(s))
  /\ act' = FinishEvent(s)
  /\ UNCHANGED env

DoCrash ==
  /\ s.alive /\ env.nc < MaxCrash
  /\ s' = Crash(s)
  /\ env' = [env EXCEPT !.nc = @ + 1]
  /\ obs' = ObsEvent(obs, Step("crash", 0, "none"))
  /\ act' = Step("crash", IF s.op.k = "idle" THEN 0 ELSE s.op.step, s.op.k)

Next == /\ (DoLoad \/ DoProtect \/ DoUnprotect \/ DoClean \/ DoEffect \/ DoFinish \/ DoCrash
            \/ DoRespond \/ DoEchoErr \/ DoResponse)
        /\ UNCHANGED hist

Spec == Init /\ [][Next]_vars

View == <<s, env, obs>>

(* every transition of the implementation-shaped graph with a shortest path *)
EdgeNext ==
  /\ (DoLoad \/ DoProtect \/ DoUnprotect \/ DoClean \/ DoEffect \/ DoFinish \/ DoCrash
      \/ DoRespond \/ DoEchoErr \/ DoResponse)
  /\ hist' = Append(hist, act')
  /\ PrintT(<<"EDGE", s.cs, hist'>>)

EdgeSpec == Init /\ [][EdgeNext]_vars
EdgeView == <<s, env.peerNext, env.sent, env.life>>

(***************************************************************************)
(* Clauses                                                                 *)
(***************************************************************************)
C13_NoReuse             == "C13_NoReuse" \notin obs.bad
C13_StrictlyIncreasing  == "C13_StrictlyIncreasing" \notin obs.bad
C13_RefuseAtMax         == "C13_RefuseAtMax" \notin obs.bad
C13_UncleanMeansUnknown == "C13_UncleanMeansUnknown" \notin obs.bad
C13_CleanKeepsWindow    == "C13_CleanKeepsWindow" \notin obs.bad
NoBad == obs.bad = {}

(* design-level invariants that explain why the clauses hold *)
IssuedBelowDisk ==      \* B.1.1: everything issued is below what the disk promises
  \A iv \in obs.issued : s.disk.ex /\ iv[2] < s.disk.next
MemoryBelowPersisted == s.alive /\ s.op.k = "idle" => s.ssn <= s.pers
ReusableNonceIsUnused ==   \* why a response may re-use a request's nonce: it never has been
  s.alive => \A n \in s.fresh : n \notin obs.reused
KnownWindowIsAccurate ==   \* a window stored as known rejects everything accepted so far
  (s.disk.ex /\ ~s.disk.unk /\ s.disk.win.init) =>
     \A n \in obs.accOld \cup obs.accNow : ~Valid(s.disk.win, s.w, n)
=============================================================================
