----------------------------- MODULE MsgServer -----------------------------
(* Implementation-shaped model of aiocoap's MessageManager in its server    *)
(* role and of its stateless reaction table (messagemanager.py:             *)
(* dispatch_message, _deduplicate_message, _store_response_for_duplicates,  *)
(* _process_request with its empty-ACK timer, _process_ping, send_message's *)
(* piggy-backing, _send_empty_ack; tokenmanager.process_request/response).  *)
(* One action per event-loop callback.  The peer is adversarial: any        *)
(* datagram of the vocabulary at any time, duplicates included.  The        *)
(* endpoint's own message-ID counter shares the small ID range with the     *)
(* peer's IDs, so collisions between the two ID spaces are explored.        *)
EXTENDS MsgServerObs, TLC

CONSTANTS NRemotes, MidSpace, NToks, MaxInv, MaxTime, MaxEnv

Remotes == 1..NRemotes
Mids == 0..(MidSpace - 1)
Toks == 1..NToks

VARIABLES now,
          nextMid,   \* MessageManager.message_id (the endpoint's own IDs)
          recent,    \* _recent_messages: <<r, mid>> -> [reply, rty, exp]   reply: digest (0 = None), rty its type
          piggy,     \* _piggyback_opportunities: <<r, tok>> -> [mid, due]
          inv,       \* running handlers: inv id -> [r, mid, tok, con]
          ninv,      \* invocations so far
          sepq,      \* separate CON responses awaiting the peer's ACK: set of <<r, mid>>
          budget, emit, obs

vars == <<now, nextMid, recent, piggy, inv, ninv, sepq, budget, emit, obs>>

TokStr(k) == IF k = 1 THEN "a1" ELSE IF k = 2 THEN "a2" ELSE "a3"

Ev(k, r, ty, mid, tok, cls, code, dig, h, i) ==
  [k |-> k, t |-> now, r |-> r, ty |-> ty, mid |-> mid, tok |-> tok, cls |-> cls, code |-> code,
   dig |-> dig, q |-> 0, h |-> h, inv |-> i, loc |-> "u", nr |-> 0, x |-> IF k = "release" THEN "ok" ELSE ""]

\* abstract digest of a datagram: injective in (type, mid, responding invocation)
TyIdx(ty) == CASE ty = "CON" -> 1 [] ty = "NON" -> 2 [] ty = "ACK" -> 3 [] ty = "RST" -> 4
Dig(ty, mid, i) == 1 + TyIdx(ty) + 10 * mid + 1000 * i

Drop(f, ks) == [x \in (DOMAIN f) \ ks |-> f[x]]
Step(es) == /\ emit' = es /\ obs' = ObsFold(obs, es)

Init == /\ now = 0 /\ nextMid \in Mids /\ recent = << >> /\ piggy = << >> /\ inv = << >> /\ ninv = 0
        /\ sepq = {} /\ budget = MaxEnv /\ emit = << >> /\ obs = ObsInit

TimerDue == \/ \E k \in DOMAIN piggy : piggy[k].due <= now
            \/ \E k \in DOMAIN recent : recent[k].exp <= now

\* _store_response_for_duplicates: an outgoing ACK whose (remote, mid) is remembered.
\* (Until fix aac6281 the implementation stored ANY outgoing message here; TLC found the
\* collision between the endpoint's own IDs and a remembered request ID, see known_findings.json.)
Store(rec, r, mid, dig, ty, cls, tok) ==
  IF ty = "ACK" /\ <<r, mid>> \in DOMAIN rec
    THEN [rec EXCEPT ![<<r, mid>>] = [@ EXCEPT !.reply = dig, !.rty = ty, !.rcls = cls, !.rtok = tok]] ELSE rec

(* -- a request datagram is read ------------------------------------------- *)
RxReq(r, mid, ty, k) ==
  /\ budget > 0 /\ sepq = {}
  /\ LET key == <<r, mid>>
         tok == TokStr(k)
         rx == Ev("rx", r, ty, mid, tok, "req", 1, 7, 1, 0)
         rxend == Ev("rxend", 0, "", 0, "", "", 0, 0, 0, 0)
     IN IF key \in DOMAIN recent
          THEN \* duplicate: repeat the stored reply for a CON, if there is one
               \* domain: a duplicate is the same datagram (gty/gtok are ghost fields recording what it was)
               /\ recent[key].gty = ty /\ recent[key].gtok = tok
               /\ LET rep == recent[key]
                      out == IF ty = "CON" /\ rep.reply # 0
                               THEN IF rep.rty = "CON"
                                      THEN << >>    \* _send_initially(CON, monitor=None): AssertionError, nothing sent
                                      ELSE <<Ev("tx", r, rep.rty, mid, rep.rtok, rep.rcls, IF rep.rcls = "resp" THEN 69 ELSE 0, rep.reply, 0, 0)>>
                               ELSE << >>
                  IN Step(<<rx>> \o out \o <<rxend>>)
               /\ UNCHANGED <<recent, piggy, inv, ninv>>
          ELSE \* new: remember it, arm the empty-ACK timer for a CON, start the handler (a task, same instant)
               /\ ninv < MaxInv
               \* domain: the peer keeps tokens of its concurrently outstanding requests distinct
               /\ \A i \in DOMAIN inv : ~(inv[i].r = r /\ inv[i].tok = tok)
               /\ <<r, tok>> \notin DOMAIN piggy
               /\ recent' = Put(recent, key, [reply |-> 0, rty |-> "", rcls |-> "", rtok |-> "", exp |-> now + ExchangeLifetime, gty |-> ty, gtok |-> tok])
               /\ piggy' = IF ty = "CON" THEN Put(piggy, <<r, tok>>, [mid |-> mid, due |-> now + EmptyAckDelay]) ELSE piggy
               /\ ninv' = ninv + 1
               /\ inv' = Put(inv, ninv + 1, [r |-> r, mid |-> mid, tok |-> tok, con |-> ty = "CON"])
               /\ Step(<<rx, rxend, Ev("call", r, "", mid, tok, "", 1, 0, 1, ninv + 1)>>)
  /\ budget' = budget - 1
  /\ UNCHANGED <<now, nextMid, sepq>>

(* -- the handler of invocation i produces its response (send_message) ------ *)
Release(i) ==
  /\ i \in DOMAIN inv /\ sepq = {}
  /\ LET v == inv[i]
         pk == <<v.r, v.tok>>
         rel == Ev("release", 0, "", 0, "", "", 0, 0, 1, i)
     IN IF pk \in DOMAIN piggy
          THEN \* piggy-back on the pending acknowledgement
               LET mid == piggy[pk].mid
                   d == Dig("ACK", mid, i)
               IN /\ piggy' = Drop(piggy, {pk})
                  /\ recent' = Store(recent, v.r, mid, d, "ACK", "resp", v.tok)
                  /\ Step(<<rel, Ev("tx", v.r, "ACK", mid, v.tok, "resp", 69, d, 0, 0)>>)
                  /\ UNCHANGED <<nextMid, sepq>>
          ELSE \* separate response with a fresh ID of the endpoint's own
               LET mid == nextMid
                   ty == IF v.con THEN "CON" ELSE "NON"
                   d == Dig(ty, mid, i)
               IN /\ nextMid' = (nextMid + 1) % MidSpace
                  /\ recent' = Store(recent, v.r, mid, d, ty, "resp", v.tok)
                  /\ sepq' = IF v.con THEN {<<v.r, mid>>} ELSE {}
                  /\ Step(<<rel, Ev("tx", v.r, ty, mid, v.tok, "resp", 69, d, 0, 0)>>)
                  /\ UNCHANGED piggy
  /\ inv' = Drop(inv, {i})
  /\ UNCHANGED <<now, ninv, budget>>

(* -- the peer acknowledges a separate CON response right away (environment  *)
(*    assumption of this model: retransmission is MsgClient's subject) ------ *)
AckSep(key) ==
  /\ key \in sepq
  /\ sepq' = sepq \ {key}
  /\ Step(<<Ev("rx", key[1], "ACK", key[2], "", "empty", 0, 5, 0, 0), Ev("rxend", 0, "", 0, "", "", 0, 0, 0, 0)>>)
  /\ UNCHANGED <<now, nextMid, recent, piggy, inv, ninv, budget>>

(* -- empty-ACK timer (on_timeout in _process_request) ----------------------- *)
TimerEmptyAck(pk) ==
  /\ pk \in DOMAIN piggy /\ piggy[pk].due = now /\ sepq = {}
  /\ LET mid == piggy[pk].mid
         d == Dig("ACK", mid, 0)
     IN /\ piggy' = Drop(piggy, {pk})
        /\ recent' = Store(recent, pk[1], mid, d, "ACK", "empty", "")
        /\ Step(<<Ev("tx", pk[1], "ACK", mid, "", "empty", 0, d, 0, 0)>>)
  /\ UNCHANGED <<now, nextMid, inv, ninv, sepq, budget>>

(* -- deduplication entry expires -------------------------------------------- *)
TimerExpire(key) ==
  /\ key \in DOMAIN recent /\ recent[key].exp = now /\ sepq = {}
  /\ recent' = Drop(recent, {key})
  /\ emit' = << >>
  /\ UNCHANGED <<now, nextMid, piggy, inv, ninv, sepq, budget, obs>>

(* -- stateless cells of the reaction table ---------------------------------- *)
RxPing(r, mid) ==
  /\ budget > 0 /\ sepq = {}
  /\ Step(<<Ev("rx", r, "CON", mid, "", "empty", 0, 3, 0, 0),
            Ev("tx", r, "RST", mid, "", "empty", 0, Dig("RST", mid, 0), 0, 0),
            Ev("rxend", 0, "", 0, "", "", 0, 0, 0, 0)>>)
  /\ recent' = Store(recent, r, mid, Dig("RST", mid, 0), "RST", "empty", "")
  /\ budget' = budget - 1
  /\ UNCHANGED <<now, nextMid, piggy, inv, ninv, sepq>>

RxUnmatchedResp(r, mid, ty) ==       \* no client request is pending in this model
  /\ budget > 0 /\ sepq = {}
  /\ LET rx == Ev("rx", r, ty, mid, "ff", "resp", 69, 9, 0, 0)
         rxend == Ev("rxend", 0, "", 0, "", "", 0, 0, 0, 0)
         d == Dig("RST", mid, 0)
     IN IF ty = "CON"
          THEN /\ Step(<<rx, Ev("tx", r, "RST", mid, "", "empty", 0, d, 0, 0), rxend>>)
               /\ recent' = Store(recent, r, mid, d, "RST", "empty", "")
          ELSE /\ Step(<<rx, rxend>>) /\ UNCHANGED recent
  /\ budget' = budget - 1
  /\ UNCHANGED <<now, nextMid, piggy, inv, ninv, sepq>>

Tick == /\ ~TimerDue /\ sepq = {} /\ now < MaxTime
        /\ now' = now + 1 /\ emit' = << >>
        /\ UNCHANGED <<nextMid, recent, piggy, inv, ninv, sepq, budget, obs>>

End == /\ sepq = {} /\ piggy = << >> /\ inv = << >> /\ budget = 0 /\ ~TimerDue
       /\ (IF emit = << >> THEN TRUE ELSE emit[Len(emit)].k # "end")
       /\ Step(<<Ev("end", 0, "", 0, "", "", 0, 0, 0, 0)>>)
       /\ UNCHANGED <<now, nextMid, recent, piggy, inv, ninv, sepq, budget>>

MidsOfInterest(r) == {k[2] : k \in {x \in DOMAIN recent : x[1] = r}} \cup {nextMid}
                       \cup {CHOOSE m \in Mids : <<r, m>> \notin DOMAIN recent}

FreshMids(r) == {m \in {nextMid, CHOOSE m \in Mids : <<r, m>> \notin DOMAIN recent} : <<r, m>> \notin DOMAIN recent}

Next == \/ \E key \in sepq : AckSep(key)
        \/ \E pk \in DOMAIN piggy : TimerEmptyAck(pk)
        \/ \E key \in DOMAIN recent : TimerExpire(key)
        \/ (~TimerDue /\ \E r \in Remotes, ty \in {"CON", "NON"}, k \in Toks : \E m \in MidsOfInterest(r) : RxReq(r, m, ty, k))
        \/ (~TimerDue /\ \E i \in DOMAIN inv : Release(i))
        \* domain: the peer does not reuse a message ID for a different message within the lifetime
        \/ (~TimerDue /\ \E r \in Remotes : \E m \in FreshMids(r) : RxPing(r, m))
        \/ (~TimerDue /\ \E r \in Remotes, ty \in {"CON", "NON"} : \E m \in FreshMids(r) : RxUnmatchedResp(r, m, ty))
        \/ Tick
        \/ End

Spec == Init /\ [][Next]_vars

NoBad == obs.bad = {}
\* state-based forms
PiggyOnlyForRunning == \A pk \in DOMAIN piggy : \E i \in DOMAIN inv : inv[i].r = pk[1] /\ inv[i].tok = pk[2]
View == <<now, nextMid, recent, piggy, inv, ninv, sepq, budget, obs>>
=============================================================================
