--------------------------- MODULE BlockClientTrace ---------------------------
(* Batch validation of recorded executions of the real block-wise client      *)
(* (harness/blockclientdrive.py) against the clauses of BlockClientObs.       *)
(* A trace holds one transfer or several concurrent ones (event field tr):    *)
(* one monitor summary per transfer; `end' closes all of them.                *)
EXTENDS BlockClientObs, Json, IOUtils, TLC, TLCExt

Traces == JsonDeserialize(IOEnv.TRACE_FILE)
MaxTr == 3

VARIABLES tid, l, obs, firstBad
tvars == <<tid, l, obs, firstBad>>

TInit == /\ tid \in 1..Len(Traces) /\ l = 1 /\ obs = [i \in 1..MaxTr |-> ObsInit] /\ firstBad = {}

AllBad(ob) == UNION {ob[i].bad : i \in 1..MaxTr}

TNext == /\ l <= Len(Traces[tid])
         /\ LET e == Traces[tid][l] IN
            obs' = IF e.k = "end" THEN [i \in 1..MaxTr |-> ObsEvent(obs[i], e)]
                   ELSE IF e.tr \in 1..MaxTr THEN [obs EXCEPT ![e.tr] = ObsEvent(@, e)]
                   ELSE obs
         /\ firstBad' = firstBad \cup {<<c, l>> : c \in AllBad(obs') \ AllBad(obs)}
         /\ l' = l + 1
         /\ UNCHANGED tid

TSpec == TInit /\ [][TNext]_tvars

\* what was judged / met on the trace (evidence counters)
Facts == UNION {obs[i].judged \cup (IF obs[i].viol THEN {"violation-delivered"} ELSE {})
                              \cup (IF obs[i].enverr THEN {"error-response-delivered"} ELSE {})
                              \cup (IF obs[i].grown THEN {"server-growth-delivered"} ELSE {})
                              \cup (IF obs[i].hidden THEN {"hidden-change-delivered"} ELSE {}) : i \in 1..MaxTr}
Report == (l = Len(Traces[tid]) + 1) => (PrintT(<<"TRACE", tid, l - 1, firstBad>>) /\ PrintT(<<"FACTS", tid, Facts>>))
=============================================================================
