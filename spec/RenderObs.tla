----------------------------- MODULE RenderObs -----------------------------
(* Property C09: every request gets exactly one final response reflecting   *)
(* the handler outcome.  The table Expected(method, outcome) is the          *)
(* statement's; the monitor summary is a function of the observable events  *)
(* (uniform records of harness/drive.py):                                   *)
(*   rx(r, tok, code = method, ty, nr, x)  x: "" | "nopath" | "unimpl" |    *)
(*        "nosite" (what the harness knows about the addressed path)        *)
(*   call(r, tok, inv)  release(inv, x = outcome)                           *)
(*   tx(r, tok, cls, code, plen, leak, mid, dig)  end                       *)
EXTENDS Naturals, Integers, Sequences, FiniteSets

Has(f, k) == k \in DOMAIN f
Put(f, k, v) == [x \in (DOMAIN f) \cup {k} |-> IF x = k THEN v ELSE f[x]]

C(class, detail) == class * 32 + detail

Renderable ==    \* exception class name -> response code
  [ BadRequest |-> C(4,0), Unauthorized |-> C(4,1), BadOption |-> C(4,2), Forbidden |-> C(4,3),
    NotFound |-> C(4,4), MethodNotAllowed |-> C(4,5), NotAcceptable |-> C(4,6),
    RequestEntityIncomplete |-> C(4,8), Conflict |-> C(4,9), PreconditionFailed |-> C(4,12),
    RequestEntityTooLarge |-> C(4,13), UnsupportedContentFormat |-> C(4,15),
    UnprocessableEntity |-> C(4,22), TooManyRequests |-> C(4,29), InternalServerError |-> C(5,0),
    NotImplemented |-> C(5,1), BadGateway |-> C(5,2), ServiceUnavailable |-> C(5,3),
    GatewayTimeout |-> C(5,4), ProxyingNotSupported |-> C(5,5), HopLimitReached |-> C(5,8) ]

RenderableOutcome(o) == \E n \in DOMAIN Renderable : o = "raise:" \o n
BareOutcomes == {"raise:py:KeyError", "raise:py:AssertionError", "raise:py:ValueError", "raise:py:RuntimeError",
                 "raise:py:Exception", "ret:none", "ret:str", "ret:bytes", "ret:int", "badrender",
                 \* a message that passes the renderer but cannot be serialised (str payload, option value out of range)
                 "unencodable:payload", "unencodable:option",
                 \* an error renderer that returns nothing / something that is no message
                 "badrender:none", "badrender:nonmessage",
                 \* library exceptions that are not renderable, and OS-level ones
                 "raise:lib:ResponseWrappingError", "raise:lib:NetworkError", "raise:lib:LibraryShutdown",
                 "raise:lib:OSError", "raise:lib:TimeoutError", "raise:lib:ConnectionResetError"}

DefaultCode(method) == IF method \in {1, 5} THEN C(2,5) ELSE IF method = 4 THEN C(2,2) ELSE C(2,4)

\* 0 = the statement does not fix the code for this outcome
Expected(method, outcome) ==
  IF outcome = "ok" THEN C(2,5)
  ELSE IF outcome = "nocode" THEN DefaultCode(method)
  ELSE IF outcome \in BareOutcomes THEN C(5,0)
  ELSE IF RenderableOutcome(outcome)
    THEN Renderable[CHOOSE n \in DOMAIN Renderable : outcome = "raise:" \o n]
  ELSE 0

ObsInit == [ rq |-> << >>,      \* <<r, tok>> -> [method, kind, outcome, n, mid, dig, nr]
             inv |-> << >>,     \* inv -> <<r, tok>>
             bad |-> {} ]

Flag(o, c) == [o EXCEPT !.bad = @ \cup {c}]
FlagIf(o, cond, c) == IF cond THEN Flag(o, c) ELSE o

ObsRx(o, e) ==
  IF e.cls = "req" /\ e.ty \in {"CON", "NON"}
    THEN [o EXCEPT !.rq = Put(@, <<e.r, e.tok>>, [method |-> e.code, kind |-> e.x, outcome |-> "", n |-> 0,
                                                 mid |-> -1, dig |-> 0, nr |-> e.nr, dlen |-> -1, dcid |-> -1])]
    ELSE o

ObsCall(o, e) == [o EXCEPT !.inv = Put(@, e.inv, <<e.r, e.tok>>)]

\* (for a renderable error the release event tells the diagnostic text the handler put in: length and identity)
ObsRelease(o, e) ==
  IF Has(o.inv, e.inv) /\ Has(o.rq, o.inv[e.inv])
    THEN [o EXCEPT !.rq[o.inv[e.inv]].outcome = e.x, !.rq[o.inv[e.inv]].dlen = e.plen, !.rq[o.inv[e.inv]].dcid = e.cid]
    ELSE o

ObsTx(o, e) ==
  IF e.cls # "resp" THEN o
  ELSE LET k == <<e.r, e.tok>> IN
       IF ~Has(o.rq, k) THEN Flag(o, "C09_ResponseWithoutRequest")
       ELSE LET s == o.rq[k] IN
            IF s.n >= 1 /\ s.mid = e.mid /\ s.dig = e.dig THEN o      \* retransmission
            ELSE LET want == CASE s.kind = "nopath" -> C(4,4)
                               [] s.kind = "nosite" -> C(4,4)
                               [] s.kind = "unimpl" -> C(4,5)
                               [] OTHER -> Expected(s.method, s.outcome)
                     bare == s.kind = "" /\ s.outcome \in BareOutcomes
                     o1 == FlagIf(o, s.n >= 1, "C09_OneFinalResponse")
                     o2 == FlagIf(o1, want # 0 /\ e.code # want,
                                  CASE s.kind = "nopath" -> "C09_UnknownPath404"
                                    [] s.kind = "nosite" -> "C09_NoSite404"
                                    [] s.kind = "unimpl" -> "C09_Unimplemented405"
                                    [] OTHER -> "C09_CodeReflectsOutcome")
                     o3 == FlagIf(o2, bare /\ e.plen # 0, "C09_Bare500")
                     o4 == FlagIf(o3, e.leak, "C09_NoExceptionTextLeaks")
                     o5 == FlagIf(o4, s.kind = "" /\ s.outcome = "", "C09_ResponseBeforeOutcome")
                     \* "a raised renderable error is sent with its own code and diagnostic payload"
                     o6 == FlagIf(o5, s.kind = "" /\ RenderableOutcome(s.outcome) /\ s.dlen >= 0
                                      /\ ~(e.plen = s.dlen /\ e.cid = s.dcid /\ e.cok), "C09_DiagnosticPayload")
                 IN [o6 EXCEPT !.rq[k].n = @ + 1, !.rq[k].mid = e.mid, !.rq[k].dig = e.dig]

\* exactly one final response per request at quiescence (requests carrying No-Response are C10's)
ObsEnd(o, e) ==
  FlagIf(o, \E k \in DOMAIN o.rq : o.rq[k].nr = 0 /\ o.rq[k].n # 1 /\ o.rq[k].outcome # "noresponse"
                                    /\ (o.rq[k].kind # "" \/ o.rq[k].outcome # ""),
         "C09_OneFinalResponse")

ObsEvent(o, e) ==
  CASE e.k = "rx"      -> ObsRx(o, e)
    [] e.k = "call"    -> ObsCall(o, e)
    [] e.k = "release" -> ObsRelease(o, e)
    [] e.k = "tx"      -> ObsTx(o, e)
    [] e.k = "end"     -> ObsEnd(o, e)
    [] OTHER           -> o

RECURSIVE ObsFold(_, _)
ObsFold(o, es) == IF es = << >> THEN o ELSE ObsFold(ObsEvent(o, Head(es)), Tail(es))
=============================================================================
