------------------------ MODULE ResourceDirectoryUri ------------------------
(* Reference resolution of RFC 3986 section 5 on strings, transcribed for    *)
(* property C20 (resource directory): the registration's links and anchors   *)
(* are resolved against the registration base before they are shown in a     *)
(* resource lookup.  TLC evaluates Len, \o and SubSeq on strings, so the     *)
(* algorithms are written as in the RFC: on the text of the reference.       *)
(*   ParseRef        appendix B (components of a URI reference)              *)
(*   RemoveDots      5.2.4 remove_dot_segments                               *)
(*   Merge           5.2.3                                                   *)
(*   Resolve         5.2.2 (strict), fragment dropped                        *)
(*   Recompose       5.3                                                     *)
(* The examples of RFC 3986 section 5.4 are evaluated as ASSUMEs whenever a  *)
(* module that extends this one is loaded.                                   *)
EXTENDS Integers, Sequences

Ch(s, i) == SubSeq(s, i, i)
From(s, i) == SubSeq(s, i, Len(s))
IsPrefix(p, s) == Len(p) <= Len(s) /\ SubSeq(s, 1, Len(p)) = p

\* least index >= i at which s has one of the characters cs; Len(s) + 1 if none
RECURSIVE Find(_, _, _)
Find(s, cs, i) == IF i > Len(s) THEN Len(s) + 1
                  ELSE IF Ch(s, i) \in cs THEN i ELSE Find(s, cs, i + 1)

\* greatest index <= i at which s has a "/"; 0 if none
RECURSIVE LastSlash(_, _)
LastSlash(s, i) == IF i <= 0 THEN 0 ELSE IF Ch(s, i) = "/" THEN i ELSE LastSlash(s, i - 1)

(* appendix B: scheme = what precedes the first ":" if no "/", "?", "#"    *)
(* comes earlier; authority = after "//" up to the next "/", "?", "#";     *)
(* path up to "?" or "#"; query up to "#"                                   *)
ParseRef(s) ==
  LET c    == Find(s, {":", "/", "?", "#"}, 1)
      hasS == c <= Len(s) /\ c > 1 /\ Ch(s, c) = ":"
      r1   == IF hasS THEN From(s, c + 1) ELSE s
      hasA == IsPrefix("//", r1)
      ae   == IF hasA THEN Find(r1, {"/", "?", "#"}, 3) ELSE 1
      r2   == IF hasA THEN From(r1, ae) ELSE r1
      pe   == Find(r2, {"?", "#"}, 1)
      hasQ == pe <= Len(r2) /\ Ch(r2, pe) = "?"
      qe   == IF hasQ THEN Find(r2, {"#"}, pe + 1) ELSE pe
  IN [hasS |-> hasS, sch  |-> IF hasS THEN SubSeq(s, 1, c - 1) ELSE "",
      hasA |-> hasA, auth |-> IF hasA THEN SubSeq(r1, 3, ae - 1) ELSE "",
      path |-> SubSeq(r2, 1, pe - 1),
      hasQ |-> hasQ, query |-> IF hasQ THEN SubSeq(r2, pe + 1, qe - 1) ELSE ""]

(* 5.2.4: the output buffer without its last segment and the "/" before it *)
DropLastSeg(out) == LET j == LastSlash(out, Len(out)) IN IF j = 0 THEN "" ELSE SubSeq(out, 1, j - 1)

RECURSIVE RDS(_, _)
RDS(in, out) ==
  IF in = "" THEN out
  ELSE IF IsPrefix("../", in) THEN RDS(From(in, 4), out)                       \* 2A
  ELSE IF IsPrefix("./", in) THEN RDS(From(in, 3), out)
  ELSE IF IsPrefix("/./", in) THEN RDS(From(in, 3), out)                       \* 2B
  ELSE IF in = "/." THEN RDS("/", out)
  ELSE IF IsPrefix("/../", in) THEN RDS(From(in, 4), DropLastSeg(out))         \* 2C
  ELSE IF in = "/.." THEN RDS("/", DropLastSeg(out))
  ELSE IF in = "." \/ in = ".." THEN RDS("", out)                              \* 2D
  ELSE LET e == Find(in, {"/"}, 2) IN RDS(From(in, e), out \o SubSeq(in, 1, e - 1))   \* 2E
RemoveDots(p) == RDS(p, "")

(* 5.2.3 *)
Merge(B, rpath) == IF B.hasA /\ B.path = "" THEN "/" \o rpath
                   ELSE SubSeq(B.path, 1, LastSlash(B.path, Len(B.path))) \o rpath

(* 5.2.2, strict parser; B and R are parsed references, B has a scheme *)
Resolve(B, R) ==
  IF R.hasS THEN [R EXCEPT !.path = RemoveDots(@)]
  ELSE IF R.hasA THEN [R EXCEPT !.hasS = TRUE, !.sch = B.sch, !.path = RemoveDots(@)]
  ELSE IF R.path = "" THEN [B EXCEPT !.hasQ = IF R.hasQ THEN TRUE ELSE @, !.query = IF R.hasQ THEN R.query ELSE @]
  ELSE [B EXCEPT !.path = IF IsPrefix("/", R.path) THEN RemoveDots(R.path) ELSE RemoveDots(Merge(B, R.path)),
                 !.hasQ = R.hasQ, !.query = R.query]

(* 5.3 *)
Recompose(U) == (IF U.hasS THEN U.sch \o ":" ELSE "") \o (IF U.hasA THEN "//" \o U.auth ELSE "")
                \o U.path \o (IF U.hasQ THEN "?" \o U.query ELSE "")

ResolveStr(base, ref) == Recompose(Resolve(ParseRef(base), ParseRef(ref)))
\* the root of the target's authority: the context of a link that has no anchor
RootOf(uri) == ResolveStr(uri, "/")

(* -- RFC 3986 section 5.4.1 (normal) and 5.4.2 (abnormal) examples ---------- *)
Rfc54Base == "http://a/b/c/d;p?q"
Rfc54 == << <<"g:h", "g:h">>, <<"g", "http://a/b/c/g">>, <<"./g", "http://a/b/c/g">>, <<"g/", "http://a/b/c/g/">>,
            <<"/g", "http://a/g">>, <<"//g", "http://g">>, <<"?y", "http://a/b/c/d;p?y">>, <<"g?y", "http://a/b/c/g?y">>,
            <<"#s", "http://a/b/c/d;p?q">>, <<"g#s", "http://a/b/c/g">>, <<"g?y#s", "http://a/b/c/g?y">>,
            <<";x", "http://a/b/c/;x">>, <<"g;x", "http://a/b/c/g;x">>, <<"g;x?y#s", "http://a/b/c/g;x?y">>,
            <<"", "http://a/b/c/d;p?q">>, <<".", "http://a/b/c/">>, <<"./", "http://a/b/c/">>, <<"..", "http://a/b/">>,
            <<"../", "http://a/b/">>, <<"../g", "http://a/b/g">>, <<"../..", "http://a/">>, <<"../../", "http://a/">>,
            <<"../../g", "http://a/g">>,
            <<"../../../g", "http://a/g">>, <<"../../../../g", "http://a/g">>, <<"/./g", "http://a/g">>,
            <<"/../g", "http://a/g">>, <<"g.", "http://a/b/c/g.">>, <<".g", "http://a/b/c/.g">>, <<"g..", "http://a/b/c/g..">>,
            <<"..g", "http://a/b/c/..g">>, <<"./../g", "http://a/b/g">>, <<"./g/.", "http://a/b/c/g/">>,
            <<"g/./h", "http://a/b/c/g/h">>, <<"g/../h", "http://a/b/c/h">>, <<"g;x=1/./y", "http://a/b/c/g;x=1/y">>,
            <<"g;x=1/../y", "http://a/b/c/y">>, <<"g?y/./x", "http://a/b/c/g?y/./x">>, <<"g?y/../x", "http://a/b/c/g?y/../x">> >>
ASSUME \A i \in DOMAIN Rfc54 : ResolveStr(Rfc54Base, Rfc54[i][1]) = Rfc54[i][2]
=============================================================================
