---------------------------- MODULE CoapWireEval ----------------------------
(* TLC as evaluator of the CoapWire reference operators (property C01).      *)
(* The check writes a JSON array of cases to the file named by the           *)
(* environment variable C01_CASES:                                           *)
(*    ["enc", id, type, code, mid, token, [[number, value], ...], payload]   *)
(*    ["dec", id, bytes]                                                     *)
(* and reads one printed tuple per case:                                     *)
(*    <<"E", id, bytes, roundtrips>>   bytes = EncMsg(m), or 0 if m is not    *)
(*                                     representable in the format;           *)
(*                                     roundtrips: 1 iff Parse(EncMsg(m)) = m *)
(*    <<"D", id, Classify(bytes), Reserialises(bytes)>>                      *)
(* There is no behaviour specification (and no variable): TLC evaluates the  *)
(* assumption, once per case, and stops.                                     *)
EXTENDS CoapWire, Json, IOUtils

Cases == JsonDeserialize(IOEnv.C01_CASES)

EvalEnc(c) ==
    LET m == << c[3], c[4], c[5], c[6], c[7], c[8] >>
    IN  IF Representable(m)
        THEN LET e == EncMsg(m) IN << "E", c[2], e, IF Parse(e) = OkOf(m) THEN 1 ELSE 0 >>
        ELSE << "E", c[2], 0, 0 >>

EvalDec(c) == LET cl == Classify(c[3]) IN << "D", c[2], cl, ReserialisesC(cl, c[3]) >>

EvalCase(c) == IF c[1] = "enc" THEN EvalEnc(c) ELSE EvalDec(c)

ASSUME \A i \in 1..Len(Cases) : PrintT(EvalCase(Cases[i]))
=============================================================================
