-------------------------- MODULE BlockServerObs --------------------------
(* Property C06 -- block-wise server (RFC 7959): handlers see only complete *)
(* bodies, Block2 responses are exact slices of one rendering, state lives  *)
(* at least T = MAX_TRANSMIT_WAIT after its last use and at most 2T.        *)
(* Monitor summary over the observable events (harness/drive.py).  Bodies   *)
(* are self-describing: request bodies of one (endpoint, method, cache key) *)
(* are prefixes of one canonical byte string identified by `cid', so an     *)
(* in-order concatenation of blocks 0..n is recognisable by (cid, length);  *)
(* renderings are canonical strings identified by the invocation number.    *)
(* (cid = -2: the payload is too short to tell canonical strings apart.)    *)
(* Event fields used: k, t, r, tok, code, cls, plen, ck (cache-key id),     *)
(* b1n/b1m/b1s, b2n/b2m/b2s (block options, -1 = absent), cid/off/cok       *)
(* (content: which canonical string, at which offset, consistent), inv.     *)
EXTENDS Naturals, Integers, Sequences, FiniteSets

CONSTANTS T            \* lifetime lower bound of reassembly / rendering state (ticks)

Has(f, k) == k \in DOMAIN f
Put(f, k, v) == [x \in (DOMAIN f) \cup {k} |-> IF x = k THEN v ELSE f[x]]
Min(a, b) == IF a < b THEN a ELSE b
Size(szx) == 2 ^ (Min(szx, 6) + 4)

ObsInit == [ asm  |-> << >>,    \* key -> [len, use, amb]       request bodies under reassembly
             rend |-> << >>,    \* key -> [cid, len, use, amb]  rendering of the latest block-0 request
             exp  |-> << >>,    \* <<r, tok>> -> what the response to this request has to look like
             inv  |-> << >>,    \* invocation -> <<r, tok>>
             bad  |-> {} ]

Flag(o, c) == [o EXCEPT !.bad = @ \cup {c}]
FlagIf(o, cond, c) == IF cond THEN Flag(o, c) ELSE o

\* `use': last successful use; `umax': last access of any kind (a rejected continuation may or may
\* not count as a use -- the statement does not say)
Alive(s, t) == IF t < s.use + T THEN "yes" ELSE IF t >= s.umax + 2 * T THEN "no" ELSE "maybe"

NoExp == [kind |-> "any", key |-> <<0, 0, 0>>, n |-> 0, m |-> 0, s |-> 0, len |-> 0, cid |-> 0, off |-> 0,
          calls |-> 0, body |-> -1, seen |-> FALSE]

(* ---- a request datagram --------------------------------------------------- *)
ObsRxBlock1(o, e, key, rk) ==
  LET size == Size(e.b1s)
      X(kind, len) == [NoExp EXCEPT !.kind = kind, !.key = key, !.n = e.b1n, !.m = e.b1m, !.s = e.b1s, !.len = len]
  IN IF e.b1n = 0
       THEN LET o1 == [o EXCEPT !.asm = Put(@, key, [len |-> e.plen, use |-> e.t, umax |-> e.t,
                                                   amb |-> (e.b1m = 1 /\ e.plen # size)])]
            IN [o1 EXCEPT !.exp = Put(@, rk, IF e.b1m = 1 THEN X("continue", 0) ELSE X("final", e.plen))]
     ELSE IF ~Has(o.asm, key) THEN [o EXCEPT !.exp = Put(@, rk, X("e408", 0))]
     ELSE LET a == o.asm[key]
              al == Alive(a, e.t)
          IN IF al = "no" THEN [o EXCEPT !.exp = Put(@, rk, X("e408", 0))]
             ELSE IF al = "maybe" \/ a.amb
               THEN [o EXCEPT !.asm[key].amb = TRUE, !.asm[key].umax = e.t, !.exp = Put(@, rk, X("any", 0))]
             ELSE IF e.b1m = 1 /\ e.plen # size
               THEN \* size contradiction (4.00); where it is also a gap, 4.08 is as good
                    [o EXCEPT !.asm[key].amb = TRUE, !.asm[key].umax = e.t,
                              !.exp = Put(@, rk, X(IF e.b1n * size = a.len THEN "e400" ELSE "e400or408", 0))]
             ELSE IF e.b1n * size # a.len
               THEN [o EXCEPT !.asm[key].amb = TRUE, !.asm[key].umax = e.t, !.exp = Put(@, rk, X("e408", 0))]
             ELSE LET o1 == [o EXCEPT !.asm[key].len = a.len + e.plen, !.asm[key].use = e.t, !.asm[key].umax = e.t]
                  IN [o1 EXCEPT !.exp = Put(@, rk, IF e.b1m = 1 THEN X("continue", 0) ELSE X("final", a.len + e.plen))]

ObsRxBlock2(o, e, key, rk) ==
  LET size == Size(e.b2s)
      X(kind) == [NoExp EXCEPT !.kind = kind, !.key = key, !.n = e.b2n, !.s = e.b2s]
  IN IF e.b2n <= 0 THEN [o EXCEPT !.exp = Put(@, rk, X(IF e.b2n = 0 THEN "first" ELSE "firstplain"))]
     ELSE IF ~Has(o.rend, key) THEN [o EXCEPT !.exp = Put(@, rk, X("e408"))]
     ELSE LET rd == o.rend[key]
              al == Alive(rd, e.t)
              off == e.b2n * size
          IN IF al = "no" THEN [o EXCEPT !.exp = Put(@, rk, X("e408"))]
             ELSE IF al = "maybe" \/ rd.amb
               THEN [o EXCEPT !.rend[key].amb = TRUE, !.rend[key].umax = e.t, !.exp = Put(@, rk, X("any"))]
             ELSE IF off >= rd.len
               THEN \* beyond the end: 4.00; where the latest rendering never needed a block-wise transfer,
                    \* "no such rendering" (4.08) is as good a reading of the statement
                    [o EXCEPT !.rend[key].umax = e.t, !.exp = Put(@, rk, X(IF rd.chunked THEN "e400b" ELSE "e400or408b"))]
             ELSE [o EXCEPT !.rend[key].use = e.t, !.rend[key].umax = e.t,
                            \* a rendering that needed no block-wise transfer need not have been kept
                            !.exp = Put(@, rk, [X(IF rd.chunked THEN "slice" ELSE "slice408") EXCEPT !.cid = rd.cid, !.off = off,
                                                                  !.len = Min(size, rd.len - off),
                                                                  !.m = IF off + size < rd.len THEN 1 ELSE 0])]

ObsRx(o, e) ==
  IF e.cls # "req" THEN o
  ELSE LET key == <<e.r, e.code, e.ck>>
           rk == <<e.r, e.tok>>
       IN IF e.b1n >= 0 THEN ObsRxBlock1(o, e, key, rk)
          ELSE IF e.code \in {1, 5} THEN ObsRxBlock2(o, e, key, rk)
          ELSE [o EXCEPT !.exp = Put(@, rk, [NoExp EXCEPT !.kind = "final", !.key = key, !.len = e.plen])]

(* ---- the handler ------------------------------------------------------------ *)
ObsCall(o, e) ==
  LET rk == <<e.r, e.tok>> IN
  IF ~Has(o.exp, rk) THEN Flag(o, "C06_HandlerSeesCompleteBody")
  ELSE LET x == o.exp[rk]
           o1 == [o EXCEPT !.inv = Put(@, e.inv, rk), !.exp[rk].calls = @ + 1]
       IN IF x.kind = "final"
            THEN \* exactly the in-order concatenation of blocks 0..n of this key: canonical string, full length
                 FlagIf(o1, ~(e.plen = x.len /\ e.cok /\ x.calls = 0), "C06_HandlerSeesCompleteBody")
          ELSE IF x.kind \in {"first", "firstplain", "any"} THEN o1
          ELSE \* an intermediate block, a rejected continuation or a later Block2 request reached the handler
               Flag(o1, IF x.kind \in {"slice", "slice408"} THEN "C06_Block2FromSingleRendering" ELSE "C06_HandlerSeesCompleteBody")

\* the handler produced a rendering of e.plen bytes, canonical string e.inv
ObsRelease(o, e) ==
  IF ~Has(o.inv, e.inv) THEN o
  ELSE LET rk == o.inv[e.inv]
           x == o.exp[rk]
       IN IF x.kind \in {"first", "firstplain"}
            THEN [o EXCEPT !.rend = Put(@, x.key, [cid |-> e.inv % 256, len |-> e.plen, use |-> e.t, umax |-> e.t, amb |-> FALSE,
                                                   chunked |-> FALSE]),
                           !.exp[rk].body = e.plen, !.exp[rk].cid = e.inv % 256]
            ELSE o

(* ---- the response ------------------------------------------------------------ *)
ObsTx(o, e) ==
  IF e.cls # "resp" THEN o
  ELSE LET rk == <<e.r, e.tok>> IN
       IF ~Has(o.exp, rk) \/ o.exp[rk].seen THEN o
       ELSE
       LET x == o.exp[rk]
           size == Size(x.s)
           o0 == [o EXCEPT !.exp[rk].seen = TRUE]
           o1 == FlagIf(o0, e.code >= 160 /\ x.kind # "any", "C06_No5xx")
       IN CASE x.kind = "continue" ->
                 FlagIf(o1, ~(e.code = 95 /\ e.b1n = x.n /\ e.b1m = x.m /\ e.b1s = x.s), "C06_Continue231EchoesBlock1")
            [] x.kind = "e408" -> FlagIf(o1, e.code # 136, "C06_NonExtending408")
            [] x.kind = "e400" -> FlagIf(o1, e.code # 128, "C06_SizeContradiction400")
            [] x.kind = "e400b" -> FlagIf(o1, e.code # 128, "C06_Block2BeyondEnd400")
            [] x.kind = "e400or408" -> FlagIf(o1, e.code \notin {128, 136}, "C06_SizeContradiction400")
            [] x.kind = "e400or408b" -> FlagIf(o1, e.code \notin {128, 136}, "C06_Block2BeyondEnd400")
            [] x.kind = "final" -> FlagIf(o1, x.calls = 0, "C06_CompleteBodyReachesHandler")
            [] x.kind = "slice" ->
                 FlagIf(o1, ~(e.code = 69 /\ e.b2n = x.n /\ e.b2s = x.s /\ e.b2m = x.m /\ e.plen = x.len
                              /\ e.cok /\ (e.cid = x.cid \/ e.cid = -2) /\ e.off = x.off), "C06_Block2IsSlice")
            [] x.kind = "slice408" ->
                 FlagIf(o1, ~(e.code = 136 \/
                              (e.code = 69 /\ e.b2n = x.n /\ e.b2s = x.s /\ e.b2m = x.m /\ e.plen = x.len
                               /\ e.cok /\ (e.cid = x.cid \/ e.cid = -2) /\ e.off = x.off)), "C06_Block2IsSlice")
            [] x.kind \in {"first", "firstplain"} ->
                 IF x.body < 0 THEN o1     \* answered without a rendering (an error): not this clause's business
                 ELSE LET chunked == e.b2n >= 0
                          sz == IF chunked THEN Size(e.b2s) ELSE 0
                          o2 == IF Has(o1.rend, x.key) /\ o1.rend[x.key].cid = x.cid
                                  THEN [o1 EXCEPT !.rend[x.key].chunked = (e.b2m = 1)] ELSE o1
                      IN FlagIf(o2,
                            ~( /\ e.cok /\ (e.plen > 0 => ((e.cid = x.cid \/ e.cid = -2) /\ e.off = 0))
                               /\ IF chunked
                                    THEN /\ e.b2n = 0
                                         /\ (x.kind = "first" => e.b2s <= x.s)
                                         /\ e.plen = Min(sz, x.body)
                                         /\ (e.b2m = 1) <=> (x.body > sz)
                                    ELSE /\ e.plen = x.body
                                         /\ (x.kind = "first" => x.body <= size) ),
                            "C06_Block2IsSlice")
            [] OTHER -> o1

\* every complete body reached the handler (a final block that was accepted but never rendered)
ObsEnd(o, e) ==
  FlagIf(o, \E rk \in DOMAIN o.exp : o.exp[rk].kind = "final" /\ o.exp[rk].calls # 1,
         "C06_CompleteBodyReachesHandler")

ObsEvent(o, e) ==
  CASE e.k = "rx"      -> ObsRx(o, e)
    [] e.k = "call"    -> ObsCall(o, e)
    [] e.k = "release" -> ObsRelease(o, e)
    [] e.k = "tx"      -> ObsTx(o, e)
    [] e.k = "end"     -> ObsEnd(o, e)
    [] OTHER           -> o

RECURSIVE ObsFold(_, _)
ObsFold(o, es) == IF es = << >> THEN o ELSE ObsFold(ObsEvent(o, Head(es)), Tail(es))
=============================================================================
