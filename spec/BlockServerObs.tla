-------------------------- MODULE BlockServerObs --------------------------
(* Property C06 -- block-wise server (RFC 7959): handlers see only complete *)
(* bodies, Block2 responses are exact slices of one rendering, state lives  *)
(* at least T = MAX_TRANSMIT_WAIT after its last use and at most 2T.        *)
(* Monitor summary over the observable events (harness/drive.py).  Bodies   *)
(* are self-describing: request bodies of one (endpoint, method, cache key) *)
(* are prefixes of one canonical byte string identified by `cid', so an     *)
(* in-order concatenation of blocks 0..n is recognisable by (cid, length);  *)
(* renderings are canonical strings identified by the invocation number.    *)
(* (cid = -2: the payload is too short to tell canonical strings apart.)    *)
(* Event fields used: k, t, r, tok, code, cls, plen, ck (cache-key id),     *)
(* b1n/b1m/b1s, b2n/b2m/b2s (block options, -1 = absent), cid/off/cok       *)
(* (content: which canonical string, at which offset, consistent), inv.     *)
(*                                                                          *)
(* Every request has a BODY aspect (Block1: which assembly it starts,       *)
(* extends or fails to extend; none: the payload is the body) and, once the *)
(* body is complete, a RENDERING aspect (Block2 absent or NUM = 0: a block-0*)
(* request -- the handler is invoked with the complete body, exactly once,  *)
(* and the response is the first slice of THAT rendering; NUM > 0: a later  *)
(* block -- a slice of the rendering made for the latest block-0 request of *)
(* the same endpoint / method / cache key, whatever payload or Block1       *)
(* option the request repeats).  Combined Block1 + Block2 transfers are the *)
(* two aspects on one key.                                                  *)
EXTENDS Naturals, Integers, Sequences, FiniteSets

CONSTANTS T            \* lifetime lower bound of reassembly / rendering state (ticks)

Has(f, k) == k \in DOMAIN f
Put(f, k, v) == [x \in (DOMAIN f) \cup {k} |-> IF x = k THEN v ELSE f[x]]
Min(a, b) == IF a < b THEN a ELSE b
\* size exponent 7 is the BERT marker of RFC 8323: over UDP a "block" of it is 1024 bytes at most
Size(szx) == 2 ^ (Min(szx, 6) + 4)

\* how often which judgement was made (evidence only; not part of any clause)
CntKeys == {"continue", "e408", "e400", "e400or408", "e400b", "e400or408b", "first", "firstplain", "slice", "slice408", "any",
            "calls", "first_after_block1", "combined_first_slice", "later_payload_method", "later_with_payload",
            "later_with_block1", "later_rebased", "szx7", "first_larger_than_rendering", "whole_body_no_block1"}

ObsInit == [ asm  |-> << >>,    \* key -> [len, use, umax, amb, stick]   request bodies under reassembly
             rend |-> << >>,    \* key -> [cid, len, use, umax, amb, chunked, s0]  rendering of the latest block-0 request
             exp  |-> << >>,    \* <<r, tok>> -> what the response to this request has to look like
             inv  |-> << >>,    \* invocation -> <<r, tok>>
             bad  |-> {},
             cnt  |-> [c \in CntKeys |-> 0] ]

Flag(o, c) == [o EXCEPT !.bad = @ \cup {c}]
FlagIf(o, cond, c) == IF cond THEN Flag(o, c) ELSE o
IncIf(o, cond, c) == IF cond THEN [o EXCEPT !.cnt[c] = @ + 1] ELSE o

\* `use': last successful use; `umax': last access of any kind (a rejected continuation may or may
\* not count as a use -- the statement does not say)
Alive(s, t) == IF t < s.use + T THEN "yes" ELSE IF t >= s.umax + 2 * T THEN "no" ELSE "maybe"

NoExp == [kind |-> "any", key |-> <<0, 0, 0>>, n |-> 0, m |-> 0, s |-> 0, len |-> 0, cid |-> 0, off |-> 0,
          calls |-> 0, body |-> -1, seen |-> FALSE,
          blen |-> -1,        \* length of the complete body the handler has to see (block-0 requests)
          fin |-> FALSE,      \* the request completes a body that is more than "nothing" (Block1, a payload, PUT/POST...)
          hasb1 |-> FALSE,    \* the request carries a Block1 option
          later |-> FALSE,    \* the request asks for a later block (Block2 NUM > 0)
          pay |-> 0]          \* payload length of the request

FirstKinds == {"first", "firstplain"}
IsSuccess(code) == code >= 65 /\ code <= 69
\* the response's size exponent: the request's; for the reserved exponent 7 the largest regular one is as good
SzxOk(req, resp) == resp = req \/ (req = 7 /\ resp = 6)

(* ---- the body aspect of a request datagram ---------------------------------- *)
\* -> [o (assembly table updated), bk (continue / final / whole / e408 / e400 / e400or408 / any), blen]
ObsBody(o, e, key) ==
  LET size == Size(e.b1s)
      R(oo, bk, blen) == [o |-> oo, bk |-> bk, blen |-> blen]
      Fresh(len, amb, stick) == [len |-> len, use |-> e.t, umax |-> e.t, amb |-> amb, stick |-> stick]
  IN IF e.b1n < 0 THEN R(o, "whole", e.plen)
     ELSE IF e.b1s = 7
       THEN \* BERT-sized request blocks are outside the statement: nothing about this assembly is judged
            \* until the next block 0
            R(IF Has(o.asm, key) /\ e.b1n # 0 THEN [o EXCEPT !.asm[key].amb = TRUE, !.asm[key].umax = e.t]
              ELSE [o EXCEPT !.asm = Put(@, key, Fresh(0, TRUE, FALSE))], "any", -1)
     ELSE IF e.b1n = 0
       THEN R([o EXCEPT !.asm = Put(@, key, Fresh(e.plen, e.b1m = 1 /\ e.plen # size,
                                                   \* a Block2 option asking for a LATER block on the first of several
                                                   \* request blocks: what the completed request then asks for is open
                                                   e.b1m = 1 /\ e.b2n > 0))],
              IF e.b1m = 1 THEN "continue" ELSE "final", e.plen)
     ELSE IF ~Has(o.asm, key) THEN R(o, "e408", -1)
     ELSE LET a == o.asm[key]
              al == Alive(a, e.t)
              touched == [o EXCEPT !.asm[key].amb = TRUE, !.asm[key].umax = e.t]
          IN IF al = "no" THEN R(o, "e408", -1)
             ELSE IF al = "maybe" \/ a.amb THEN R(touched, "any", -1)
             ELSE IF e.b1m = 1 /\ e.plen # size
               THEN \* size contradiction (4.00); where it is also a gap, 4.08 is as good
                    R(touched, IF e.b1n * size = a.len THEN "e400" ELSE "e400or408", -1)
             ELSE IF e.b1n * size # a.len THEN R(touched, "e408", -1)
             ELSE R([o EXCEPT !.asm[key].len = a.len + e.plen, !.asm[key].use = e.t, !.asm[key].umax = e.t],
                    IF e.b1m = 1 THEN "continue" ELSE IF a.stick /\ e.b2n < 0 THEN "any" ELSE "final",
                    a.len + e.plen)

(* ---- the rendering aspect of a request whose body is complete ------------------ *)
ObsRender(o, e, key, rk, X) ==
  LET size == Size(e.b2s)
      K(kind) == [X EXCEPT !.kind = kind]
  IN IF e.b2n <= 0
       THEN [o EXCEPT !.exp = Put(@, rk, [K(IF e.b2n = 0 THEN "first" ELSE "firstplain")
                                          EXCEPT !.fin = (e.b1n >= 0 \/ e.code \notin {1, 5} \/ e.plen > 0)])]
     ELSE IF ~Has(o.rend, key) THEN [o EXCEPT !.exp = Put(@, rk, [K("e408") EXCEPT !.later = TRUE])]
     ELSE LET rd == o.rend[key]
              al == Alive(rd, e.t)
              off == e.b2n * size
              L(kind) == [K(kind) EXCEPT !.later = TRUE]
          IN IF al = "no" THEN [o EXCEPT !.exp = Put(@, rk, L("e408"))]
             ELSE IF al = "maybe" \/ rd.amb
               THEN [o EXCEPT !.rend[key].amb = TRUE, !.rend[key].umax = e.t, !.exp = Put(@, rk, L("any"))]
             ELSE IF off >= rd.len
               THEN \* beyond the end: 4.00; where the latest rendering never needed a block-wise transfer,
                    \* "no such rendering" (4.08) is as good a reading of the statement
                    [o EXCEPT !.rend[key].umax = e.t, !.exp = Put(@, rk, L(IF rd.chunked THEN "e400b" ELSE "e400or408b"))]
             ELSE [o EXCEPT !.rend[key].use = e.t, !.rend[key].umax = e.t,
                            \* a rendering that needed no block-wise transfer need not have been kept
                            !.exp = Put(@, rk, [L(IF rd.chunked THEN "slice" ELSE "slice408") EXCEPT !.cid = rd.cid, !.off = off,
                                                                  !.len = Min(size, rd.len - off),
                                                                  !.m = IF off + size < rd.len THEN 1 ELSE 0])]

ObsRx(o, e) ==
  IF e.cls # "req" THEN o
  ELSE LET key == <<e.r, e.code, e.ck>>
           rk == <<e.r, e.tok>>
           b == ObsBody(o, e, key)
           X0 == [NoExp EXCEPT !.key = key, !.hasb1 = (e.b1n >= 0), !.pay = e.plen]
       IN CASE b.bk = "continue" ->
                 [b.o EXCEPT !.exp = Put(@, rk, [X0 EXCEPT !.kind = "continue", !.n = e.b1n, !.m = e.b1m, !.s = e.b1s])]
            [] b.bk \in {"e408", "e400", "e400or408"} ->
                 [b.o EXCEPT !.exp = Put(@, rk, [X0 EXCEPT !.kind = b.bk, !.n = e.b1n, !.m = e.b1m, !.s = e.b1s])]
            [] b.bk = "any" ->
                 \* whether the body is complete is open; if it is and the request asks for a later block, the
                 \* rendering of this key is used: from here on its lifetime is open as well
                 LET o1 == IF e.b2n > 0 /\ Has(b.o.rend, key)
                             THEN [b.o EXCEPT !.rend[key].amb = TRUE, !.rend[key].umax = e.t] ELSE b.o
                 IN [o1 EXCEPT !.exp = Put(@, rk, [X0 EXCEPT !.kind = "any", !.n = e.b1n, !.m = e.b1m, !.s = e.b1s])]
            [] OTHER -> ObsRender(b.o, e, key, rk, [X0 EXCEPT !.blen = b.blen, !.n = e.b2n, !.s = e.b2s])

(* ---- the handler ------------------------------------------------------------ *)
ObsCall(o, e) ==
  LET rk == <<e.r, e.tok>> IN
  IF ~Has(o.exp, rk) THEN Flag(o, "C06_HandlerSeesCompleteBody")
  ELSE LET x == o.exp[rk]
           o1 == IncIf([o EXCEPT !.inv = Put(@, e.inv, rk), !.exp[rk].calls = @ + 1], TRUE, "calls")
       IN IF x.kind \in FirstKinds
            THEN \* exactly the in-order concatenation of blocks 0..n of this key (canonical string, full length),
                 \* and once per completed body
                 FlagIf(FlagIf(o1, ~(e.plen = x.blen /\ e.cok), "C06_HandlerSeesCompleteBody"),
                        x.calls > 0, "C06_OneInvocationPerBody")
          ELSE IF x.kind = "any" THEN o1
          ELSE IF x.later /\ x.hasb1
            THEN \* a request that completes a body AND asks for a later block of a rendering: the statement
                 \* allows serving the slice without the handler as well as invoking it (then see ObsRelease)
                 o1
          ELSE \* an intermediate block, a rejected continuation or a later Block2 request reached the handler
               Flag(o1, IF x.kind \in {"slice", "slice408"} THEN "C06_Block2FromSingleRendering" ELSE "C06_HandlerSeesCompleteBody")

\* the handler produced a rendering of e.plen bytes, canonical string e.inv
ObsRelease(o, e) ==
  IF ~Has(o.inv, e.inv) THEN o
  ELSE LET rk == o.inv[e.inv]
           x == o.exp[rk]
           Rec(amb) == [cid |-> e.inv % 256, len |-> e.plen, use |-> e.t, umax |-> e.t, amb |-> amb, chunked |-> FALSE, s0 |-> -1]
       IN IF x.kind \in FirstKinds
            THEN [o EXCEPT !.rend = Put(@, x.key, Rec(FALSE)),
                           !.exp[rk].body = e.plen, !.exp[rk].cid = e.inv % 256]
            ELSE \* a rendering made for a request the clauses do not account for: nothing about this key's
                 \* rendering is judged until the next block-0 request
                 [o EXCEPT !.rend = Put(@, x.key, Rec(TRUE))]

(* ---- the response ------------------------------------------------------------ *)
SliceMatch(x, e) ==
  /\ IsSuccess(e.code) /\ e.b2n = x.n /\ SzxOk(x.s, e.b2s) /\ e.b2m = x.m /\ e.plen = x.len
  /\ e.cok /\ (e.cid = x.cid \/ e.cid = -2) /\ e.off = x.off

ObsTxJudge(o, e, rk) ==
       LET x == o.exp[rk]
           size == Size(x.s)
           served == x.later /\ x.kind \in {"slice", "slice408"} /\ IsSuccess(e.code)
           oc0 == IncIf([o EXCEPT !.exp[rk].seen = TRUE], TRUE, x.kind)
           oc1 == IncIf(oc0, x.kind \in FirstKinds /\ x.hasb1 /\ x.body >= 0, "first_after_block1")
           oc2 == IncIf(oc1, x.kind \in FirstKinds /\ x.hasb1 /\ x.body >= 0 /\ e.b2m = 1 /\ e.b1n >= 0, "combined_first_slice")
           oc3 == IncIf(oc2, served /\ x.key[2] # 1, "later_payload_method")
           oc4 == IncIf(oc3, served /\ x.pay > 0 /\ ~x.hasb1, "later_with_payload")
           oc5 == IncIf(oc4, x.later /\ x.hasb1, "later_with_block1")
           oc6 == IncIf(oc5, (x.later \/ x.kind \in FirstKinds) /\ x.s = 7, "szx7")
           oc7 == IncIf(oc6, x.kind = "first" /\ x.body >= 0 /\ x.body <= size /\ x.s > 0, "first_larger_than_rendering")
           oc8 == IncIf(oc7, x.kind \in FirstKinds /\ ~x.hasb1 /\ x.pay > 0, "whole_body_no_block1")
           \* a later block asked for with another size exponent than the first slice was served with
           o0 == IncIf(oc8, served /\ Has(o.rend, x.key) /\ o.rend[x.key].s0 >= 0 /\ o.rend[x.key].s0 # x.s, "later_rebased")
           o1 == FlagIf(o0, e.code >= 160 /\ x.kind # "any", "C06_No5xx")
           \* the reserved size exponent 7: refusing it (4.00, RFC 7959) is as good as serving 1024-byte blocks
           bertRefused == x.s = 7 /\ e.code = 128 /\ (x.later \/ x.kind \in FirstKinds)
       IN IF bertRefused THEN [o1 EXCEPT !.exp[rk].kind = "any"]
          ELSE
          CASE x.kind = "continue" ->
                 FlagIf(o1, ~(e.code = 95 /\ e.b1n = x.n /\ e.b1m = x.m /\ e.b1s = x.s), "C06_Continue231EchoesBlock1")
            [] x.kind = "e408" -> FlagIf(o1, e.code # 136, "C06_NonExtending408")
            [] x.kind = "e400" -> FlagIf(o1, e.code # 128, "C06_SizeContradiction400")
            [] x.kind = "e400b" -> FlagIf(o1, e.code # 128, "C06_Block2BeyondEnd400")
            [] x.kind = "e400or408" -> FlagIf(o1, e.code \notin {128, 136}, "C06_SizeContradiction400")
            [] x.kind = "e400or408b" -> FlagIf(o1, e.code \notin {128, 136}, "C06_Block2BeyondEnd400")
            [] x.kind = "slice" -> FlagIf(o1, ~SliceMatch(x, e), "C06_Block2IsSlice")
            [] x.kind = "slice408" -> FlagIf(o1, ~(e.code = 136 \/ SliceMatch(x, e)), "C06_Block2IsSlice")
            [] x.kind \in FirstKinds ->
                 IF x.body < 0
                   THEN \* answered without a rendering of its own.  A complete body (Block1, a payload, a method
                        \* that carries one) must have reached the handler whatever the answer is; a plain block-0
                        \* request answered successfully was not served from the rendering made for IT
                        FlagIf(FlagIf(o1, x.fin /\ x.calls = 0, "C06_CompleteBodyReachesHandler"),
                               ~x.fin /\ x.calls = 0 /\ IsSuccess(e.code), "C06_Block0MakesRendering")
                 ELSE LET chunked == e.b2n >= 0
                          sz == IF chunked THEN Size(e.b2s) ELSE 0
                          o2 == IF Has(o1.rend, x.key) /\ o1.rend[x.key].cid = x.cid
                                  THEN [o1 EXCEPT !.rend[x.key].chunked = (e.b2m = 1), !.rend[x.key].s0 = e.b2s] ELSE o1
                      IN FlagIf(o2,
                            ~( /\ e.cok /\ (e.plen > 0 => ((e.cid = x.cid \/ e.cid = -2) /\ e.off = 0))
                               /\ IF chunked
                                    THEN /\ e.b2n = 0
                                         /\ (x.kind = "first" => e.b2s <= x.s)
                                         /\ e.plen = Min(sz, x.body)
                                         /\ (e.b2m = 1) <=> (x.body > sz)
                                    ELSE /\ e.plen = x.body
                                         /\ (x.kind = "first" => x.body <= size) ),
                            "C06_Block2IsSlice")
            [] OTHER -> o1

\* the first response to a request is judged; the request is then forgotten (a repeated response -- a
\* retransmission -- is not judged again, and the summary stays small)
ObsTx(o, e) ==
  IF e.cls # "resp" THEN o
  ELSE LET rk == <<e.r, e.tok>> IN
       IF ~Has(o.exp, rk) THEN o
       ELSE LET j == ObsTxJudge(o, e, rk)
            IN [j EXCEPT !.exp = [q \in (DOMAIN j.exp) \ {rk} |-> j.exp[q]],
                         !.inv = [i \in {i2 \in DOMAIN j.inv : j.inv[i2] # rk} |-> j.inv[i]]]

\* every complete body reached the handler (a final block that was accepted but never rendered)
ObsEnd(o, e) ==
  \* (requests that were answered have been judged at their response; these are the unanswered ones)
  FlagIf(o, \E rk \in DOMAIN o.exp : o.exp[rk].kind \in FirstKinds /\ o.exp[rk].fin /\ o.exp[rk].calls = 0,
         "C06_CompleteBodyReachesHandler")

ObsEvent(o, e) ==
  CASE e.k = "rx"      -> ObsRx(o, e)
    [] e.k = "call"    -> ObsCall(o, e)
    [] e.k = "release" -> ObsRelease(o, e)
    [] e.k = "tx"      -> ObsTx(o, e)
    [] e.k = "end"     -> ObsEnd(o, e)
    [] OTHER           -> o

RECURSIVE ObsFold(_, _)
ObsFold(o, es) == IF es = << >> THEN o ELSE ObsFold(ObsEvent(o, Head(es)), Tail(es))
=============================================================================
