----------------------------- MODULE CoapWireMC -----------------------------
(* Small closed model over the operators of CoapWire, explored exhaustively  *)
(* by TLC (property C01): every byte string over a byte-class alphabet up to *)
(* a bounded length (each prefix is a datagram of its own, so truncations    *)
(* are included), and every message of a finite message set.  The two        *)
(* formulations of the parser and the serialiser are checked against each    *)
(* other in every state, and every state is printed as a test case for the   *)
(* implementation.                                                           *)
EXTENDS CoapWire

CONSTANTS Alphabet,   \* bytes fed after header and token
          Hdr0Main,   \* first bytes explored to full depth
          Hdr0Side,   \* first bytes explored to SideDepth
          Codes,      \* second bytes
          Depth,      \* number of bytes after header+token for Hdr0Main
          SideDepth,
          EncNums,    \* option numbers of the message set
          EncLens     \* option value lengths of the message set

VARIABLES buf,  \* the datagram so far (every prefix is a datagram of its own)
          ps,   \* automaton state after buf
          msg   \* << >> when scanning bytes, else the message buf was serialised from

vars == << buf, ps, msg >>

Run(n, x) == [i \in 1..n |-> x]

OptPool == { << n, Run(l, 97) >> : n \in EncNums, l \in EncLens }
SmallPool == { o \in OptPool : Len(OVal(o)) <= 1 }
OptLists ==
    { << >> } \cup { << a >> : a \in OptPool }
    \cup { << a, c >> : a \in OptPool, c \in OptPool }
    \cup { << a, c, e >> : a \in SmallPool, c \in SmallPool, e \in SmallPool }

SmallMsgs ==
    { m \in ({ << 0, 1, 4660, << 170 >>, ol, << >> >> : ol \in OptLists }
             \cup { << ty, co, mid, tok, ol, pay >> :
                      ty \in 0..3, co \in {0, 69, 255}, mid \in {0, 65535},
                      tok \in { << >>, << 1, 2, 3, 4, 5, 6, 7, 8 >> },
                      ol \in { << >>, << << 11, << 97 >> >> >>,
                                (* string values outside the Unicode normal forms: *)
                                (* "e" + U+0301 (not NFC), U+212B, U+0340 (in none) *)
                                << << 11, << 101, 204, 129 >> >>, << 15, << 226, 132, 171 >> >> >>,
                                << << 3, << 205, 128 >> >>, << 35, << 195, 169 >> >> >>,
                                (* values with a meaning outside section 3: Max-Age *)
                                (* default 60 and Uri-Port 5683; Location-Path ".." *)
                                (* and Uri-Path "%41"; Uri-Query with a bare LF     *)
                                << << 7, << 22, 51 >> >>, << 14, << 60 >> >> >>,
                                << << 8, << 46, 46 >> >>, << 11, << 37, 52, 49 >> >> >>,
                                << << 15, << 97, 10, 98 >> >> >> },
                      pay \in { << >>, << 0 >>, << 255, 255 >> } }) : Representable(m) }

(* bytes offered in the current automaton state                              *)
Choices ==
    CASE ps.ph = "h0" -> Hdr0Main \cup Hdr0Side
      [] ps.ph = "h1" -> IF ps.b0 \in Hdr0Main THEN Codes ELSE {1}
      [] ps.ph = "h2" -> {18}
      [] ps.ph = "h3" -> {52}
      [] ps.ph = "tok" -> {170}
      [] OTHER -> Alphabet

HeaderLen == IF Len(buf) = 0 THEN 4
             ELSE IF buf[1] \div 64 = 1 /\ buf[1] % 16 <= 8 THEN 4 + (buf[1] % 16) ELSE 4
Budget == IF Len(buf) = 0 THEN Depth
          ELSE IF buf[1] \in Hdr0Main THEN Depth ELSE SideDepth

Init == \/ /\ buf = << >> /\ ps = AInit /\ msg = << >>
        \/ \E m \in SmallMsgs : /\ msg = m /\ buf = EncMsg(m) /\ ps = AInit

(* scanning: one more byte *)
Feed == /\ msg = << >>
        /\ ps.ph # "rej"
        /\ Len(buf) < HeaderLen + Budget
        /\ \E b \in Choices : /\ buf' = Append(buf, b)
                              /\ ps' = AStep(ps, b)
        /\ UNCHANGED msg

(* a serialised message of the set is run through the automaton in one step  *)
(* (a separate step only so that the deep recursion of ARun happens on a TLC *)
(* worker thread, whose stack size can be configured)                        *)
Absorb == /\ msg # << >>
          /\ ps = AInit
          /\ ps' = ARun(buf)
          /\ UNCHANGED << buf, msg >>

Next == Feed \/ Absorb

Spec == Init /\ [][Next]_vars

(* The two formulations of the parser agree on every byte string.            *)
AutomatonIsParse == (msg = << >> \/ ps # AInit) => AVerdict(ps) = Parse(buf)
(* The format is a bijection: an accepted datagram is the serialisation of   *)
(* its own fields (clause "exactly the RFC wire format" read backwards).     *)
AcceptedIsCanonical == IsOk(Parse(buf)) => /\ Representable(MsgOf(Parse(buf)))
                                           /\ EncMsg(MsgOf(Parse(buf))) = buf
(* Lossless round trip on the model level.                                   *)
EncRoundTrip == msg # << >> => Parse(buf) = OkOf(msg)
(* Extended fields: unique representation at every boundary.                 *)
ExtBoundaries ==
    \A v \in {0, 1, 12, 13, 14, 268, 269, 270, 65803, 65804} :
        LET e == << 0 >> \o ExtBytes(v)
        IN  /\ ExtCount(ExtNibble(v)) = Len(ExtBytes(v))
            /\ ExtValue(ExtNibble(v), e, 2) = v

(* Every state is a test case for the implementation.                        *)
(* (last element: 1 if buf was produced by EncMsg from a message of the set,  *)
(* which then is the message printed, by EncRoundTrip)                       *)
Emit == (msg = << >> \/ ps = AInit) => PrintT(<< "DG", buf, Classify(buf), IF msg = << >> THEN 0 ELSE 1, Reserialises(buf) >>)
=============================================================================
