--------------------------- MODULE SeqPersistTrace ---------------------------
(* Batch validation of histories recorded from the real                     *)
(* aiocoap.oscore.FilesystemSecurityContext on a temporary directory (with  *)
(* crashes injected between file-system effects) against SeqPersist.tla.    *)
(* One initial state per trace.  Trace[1] is a start record (cs, cl, mx, w  *)
(* = chunk start/limit, first refused number, window size); every further   *)
(* record is one API-level event:                                           *)
(*   k    "load" | "protect" | "unprotect" | "clean" | "crash" |            *)
(*        "respond" (a response to the accepted request rn is protected) |  *)
(*        "echoerr" (the 4.01 + Echo for the rejected request rn is         *)
(*        rendered) | "response" (the peer's response to a request of this  *)
(*        lifetime, with partial IV n or without, n = -1, is unprotected)   *)
(*   out  load: "ok"; protect: "issued" | "refused" | "crashed";            *)
(*        unprotect: "accept" | "reject" | "crashed"; clean: "done" |       *)
(*        "crashed"; crash (between operations): "crashed";                 *)
(*        respond / echoerr: "issued" (own number n) | "reused" (nonce of   *)
(*        request n) | "refused" | "crashed"; response: "ok" | "reject"     *)
(*   n    issued number / request number;  echo  "none" | "stale" | "fresh" *)
(*   rn   respond / echoerr: the request concerned (-1 otherwise)           *)
(*   c    file-system effects of _store completed before the crash          *)
(*   ssn, winit, dex, dnext, dunk, tmp   projection after the event:        *)
(*        memory sender_sequence_number (-1 dead), window initialised,      *)
(*        sequence.json exists / next-to-send / received = "unknown",       *)
(*        number of temp files lying around (-1: not logged)                *)
(* Monitor: the clauses of C13 evaluated on the recorded outcomes.  Strict: *)
(* outcome and projection compared with the model's own operators; a        *)
(* difference that breaks no clause is flagged DRIFT_model once.            *)
EXTENDS SeqPersist, Json, IOUtils, TLCExt

Traces == JsonDeserialize(IOEnv.TRACE_FILE)

VARIABLES tid, l, firstBad, sync

tvars == <<vars, tid, l, firstBad, sync>>

TInit == /\ tid \in 1..Len(Traces)
         /\ LET h == Traces[tid][1]
            IN /\ s = [SInit(h.cs, h.cl, h.mx, h.w) EXCEPT
                         !.disk = IF h.dex = 1
                                    THEN [ex |-> TRUE, next |-> h.dnext, unk |-> h.dunk = 1,
                                          win |-> IF h.dunk = 1 THEN NoWin ELSE EmptyWin]
                                    ELSE NoDisk]
               /\ obs = ObsInit(h.mx)
         /\ env = EnvInit /\ act = Step("start", 0, "none") /\ hist = << >>
         /\ l = 1 /\ firstBad = {} /\ sync = TRUE

Ev(k, e) == Step(k, e.n, e.echo)

(* a message that needs a number of the context's own *)
Issue(s0, kind, e) ==
  IF Refuses(s0) THEN [st |-> s0, out |-> "refused", n |-> e.n]
  ELSE LET b == BeginIssue(s0, kind)
       IN IF e.out = "crashed" /\ b.op.step < 4
            THEN [st |-> CrashAfter(b, e.c), out |-> "crashed", n |-> e.n]
            ELSE [st |-> RunToEnd(b), out |-> "issued", n |-> s0.ssn]

(* model's successor state and predicted outcome for a recorded event *)
Predict(e) ==
  CASE e.k = "load" -> [st |-> Load(s), out |-> "ok", n |-> e.n]
    [] e.k = "crash" -> [st |-> Crash(s), out |-> "crashed", n |-> e.n]
    [] e.k = "protect" ->
         IF Refuses(s) THEN [st |-> s, out |-> "refused", n |-> e.n]
         ELSE LET b == BeginProtect(s)
              IN IF e.out = "crashed" /\ b.op.step < 4
                   THEN [st |-> CrashAfter(b, e.c), out |-> "crashed", n |-> e.n]
                   ELSE [st |-> RunToEnd(b), out |-> "issued", n |-> s.ssn]
    [] e.k = "respond" ->
         IF ReusesNonce(s, e.rn) THEN [st |-> RespondReusing(s, e.rn), out |-> "reused", n |-> e.rn]
         ELSE Issue(s, "respond", e)
    [] e.k = "echoerr" -> Issue([s EXCEPT !.err = FALSE], "echoerr", e)
    [] e.k = "response" -> [st |-> Response(s, e.n), out |-> "ok", n |-> e.n]
    [] e.k = "unprotect" ->
         IF ~Accepts(s, e.n, e.echo) THEN [st |-> Rejected(s, e.n), out |-> "reject", n |-> e.n]
         ELSE LET b == BeginUnprotect(s, e.n, e.echo)
              IN IF e.out = "crashed" /\ b.op.step < 4
                   THEN [st |-> CrashAfter(b, e.c), out |-> "crashed", n |-> e.n]
                   ELSE [st |-> RunToEnd(b), out |-> "accept", n |-> e.n]
    [] e.k = "clean" ->
         LET b == BeginClean(s)
         IN IF e.out = "crashed"
              THEN [st |-> CrashAfter(b, e.c), out |-> "crashed", n |-> e.n]
              ELSE [st |-> RunToEnd(b), out |-> "done", n |-> e.n]

(* the monitor sees only what was recorded *)
Monitor(o, e) ==
  CASE e.k = "load" -> ObsEvent(o, Ev("load", e))
    [] e.out = "crashed" -> ObsEvent(o, Ev("crash", e))
    [] e.out = "issued" -> ObsEvent(o, Ev("issued", e))
    [] e.out = "reused" -> ObsEvent(o, Ev("reused", e))
    [] e.out = "refused" -> ObsEvent(o, Ev("refused", e))
    [] e.out = "accept" -> ObsEvent(o, Ev("accept", e))
    [] e.out = "reject" -> ObsEvent(o, Ev("reject", e))
    [] e.out = "done" -> ObsEvent(o, Ev("clean", e))
    [] OTHER -> o

Differs(p, e) ==
  \/ p.out # e.out
  \/ p.n # e.n
  \/ e.ssn # -2 /\ e.ssn # (IF p.st.alive THEN p.st.ssn ELSE -1)
  \/ e.dex # -1 /\ (e.dex = 1) # p.st.disk.ex
  \/ e.dex = 1 /\ p.st.disk.ex /\ (e.dnext # p.st.disk.next \/ (e.dunk = 1) # p.st.disk.unk)
  \/ e.tmp # -1 /\ e.tmp # p.st.tmp
  \/ e.winit # -1 /\ p.st.alive /\ (e.winit = 1) # p.st.win.init

(* \E x \in {expr} binds x to the VALUE of expr (a LET would re-evaluate it at every use) *)
TNext ==
  /\ l < Len(Traces[tid])
  /\ \E e \in {Traces[tid][l + 1]} :
     \E p \in {Predict(e)} :
     \E o1 \in {Monitor(obs, e)} :
       LET d  == sync /\ Differs(p, e)
           o2 == IF d THEN Flag(o1, {"DRIFT_model"}) ELSE o1
       IN /\ obs' = o2
          /\ s' = IF sync THEN p.st ELSE s
          /\ sync' = (sync /\ ~d)
          /\ firstBad' = firstBad \cup {<<c, l>> : c \in o2.bad \ obs.bad}
  /\ l' = l + 1
  /\ UNCHANGED <<env, act, hist, tid>>

TSpec == TInit /\ [][TNext]_tvars

Report == (l = Len(Traces[tid])) => PrintT(<<"TRACE", tid, l, firstBad>>)
=============================================================================
