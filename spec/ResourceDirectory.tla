-------------------------- MODULE ResourceDirectory --------------------------
(* Implementation-shaped model of aiocoap's resource directory              *)
(* (aiocoap/cli/rd.py: CommonRD._by_key / _by_path, initialize_endpoint,    *)
(* Registration.update_params / delete / lifetime timer, DirectoryResource, *)
(* RegistrationResource, the two lookup interfaces).  One action per        *)
(* request handler, each with the stages in which the handler validates     *)
(* and mutates; every action emits the request event it stands for followed *)
(* by what an endpoint lookup and a resource lookup return in the new state *)
(* (lookups are pure reads of _by_key), and the monitor summary `obs' of    *)
(* ResourceDirectoryObs is folded over these events.                        *)
(*                                                                          *)
(* Hyp is a set of *order hypotheses*: with Hyp = {} every handler          *)
(* validates before it mutates (the design the property asks for; TLC must  *)
(* find all clauses invariant).  With a hypothesis switched on, the handler *)
(* mutates where a reading of rd.py says it does; TLC's counterexamples of  *)
(* that variant are only candidates: they are replayed on the real code and *)
(* only a clause that is false on the recorded execution counts.            *)
EXTENDS ResourceDirectoryObs, TLC

CONSTANTS Srcs,          \* requesting peers
          Eps, Ds,       \* endpoint names, sectors ("" = no sector)
          RegProfiles,   \* set of [lt, base, x, links]
          UpdProfiles,   \* set of [lt, base, x]
          PutProfiles,   \* set of [lt, base, x, links]
          RegVars, UpdVars, PutVars,   \* request forms (see *Stage below)
          Adv,           \* sizes of clock steps
          MaxTime, MaxOps,
          Hyp,
          KeepHist       \* record the request history (replay) or not (plain model check)

VARIABLES now,
          byKey,     \* CommonRD._by_key : <<ep, d>> -> loc
          byPath,    \* CommonRD._by_path: loc -> Registration [ep, d, lt, base, expl, x, links, due]
          budget,    \* requests the environment may still send
          obs,       \* monitor summary (ResourceDirectoryObs)
          hist       \* request history (for replay; outside the VIEW)

vars == <<now, byKey, byPath, budget, obs, hist>>

E0 == [k |-> "", t |-> 0, src |-> 0, ep |-> "", d |-> "", loc |-> 0, lt |-> 0, base |-> 0, x |-> 0,
       links |-> 0, var |-> "", vg |-> "", cls |-> 0, n |-> 0, eps |-> {}, res |-> {}]

(* -- which stage of its handler a request form fails in -------------------- *)
(* DirectoryResource.render_post: body (content format, link-format parse), *)
(* then initialize_endpoint: ep / d / proxy ("early"), replacement of the   *)
(* old registration, then Registration.__init__ -> update_params ("late":   *)
(* reserved keys, lt, base); "crash": lt without a value (int(None))        *)
Rsvd == {"rsvd_rt", "rsvd_page", "rsvd_count", "rsvd_href", "rsvd_anchor"}   \* keys update_params refuses
RegStage(v) == CASE v = "ok" -> "ok"
                 [] v \in {"nocf", "badcf", "badlf"} -> "body"
                 [] v \in {"noep", "ep2", "d2", "proxy"} -> "early"
                 [] v \in {"ltnan", "lt2", "base2"} \cup Rsvd -> "late"
                 [] v = "ltnoval" -> "crash"
(* RegistrationResource.render_post: update_params ("pre": ep/d, reserved   *)
(* keys, lt, base), mutation, then the body check ("post")                  *)
UpdStage(v) == CASE v = "ok" -> "ok"
                 [] v \in {"ep", "d", "ltnan", "lt2", "base2"} \cup Rsvd -> "pre"
                 [] v = "ltnoval" -> "crash"
                 [] v \in {"body", "cfbody", "cf"} -> "post"
(* RegistrationResource.render_put: body, update_params, mutation           *)
PutStage(v) == CASE v = "ok" -> "ok"
                 [] v \in {"nocf", "badlf"} -> "body"
                 [] v \in {"ep", "ltnan"} \cup Rsvd -> "pre"
                 [] v = "ltnoval" -> "crash"

Group(stage) == CASE stage = "ok" -> "ok" [] stage = "body" -> "bad-body" [] stage = "early" -> "bad-key"
                  [] stage \in {"late", "pre"} -> "bad-param" [] stage = "crash" -> "lt-novalue"
                  [] stage = "post" -> "body"
ClsOf(stage) == IF stage = "ok" THEN 2 ELSE IF stage = "crash" THEN 5 ELSE 4

(* -- what the lookups return (get_endpoints = _by_key.values()) ----------- *)
Listed(bk) == {bk[k] : k \in DOMAIN bk}
ImplEps(bk, bp) == {[loc |-> l, ep |-> bp[l].ep, d |-> bp[l].d, base |-> bp[l].base, x |-> bp[l].x] : l \in Listed(bk)}
ImplRes(bk, bp) == UNION {ResRecs(<<bp[l].ep, bp[l].d>>, bp[l]) : l \in Listed(bk)}
LkEp(bk, bp, t)  == [E0 EXCEPT !.k = "lkep", !.t = t, !.cls = 2, !.eps = ImplEps(bk, bp),
                               !.n = Cardinality(ImplEps(bk, bp))]
LkRes(bk, bp, t) == [E0 EXCEPT !.k = "lkres", !.t = t, !.cls = 2, !.res = ImplRes(bk, bp),
                               !.n = Cardinality(ImplRes(bk, bp))]

LowestFree(bp) == CHOOSE i \in 1..(Cardinality(DOMAIN bp) + 1) :
                     i \notin DOMAIN bp /\ \A j \in 1..(i - 1) : j \in DOMAIN bp

Commit(bk, bp, t, evs, h) ==
  /\ byKey' = bk /\ byPath' = bp
  /\ LET es == evs \o <<LkEp(bk, bp, t), LkRes(bk, bp, t)>>
     IN obs' = ObsFold(obs, es)
  /\ hist' = IF KeepHist THEN hist \o h ELSE hist

Init == /\ now = 0 /\ byKey = << >> /\ byPath = << >> /\ budget = MaxOps
        /\ obs = ObsInit /\ hist = << >>

Request == obs.bad = {} /\ budget > 0

(* -- POST to the directory resource ---------------------------------------- *)
Register(src, ep, d, p, var) ==
  /\ Request
  /\ LET st     == RegStage(var)
         key    == <<ep, d>>
         hasOld == key \in DOMAIN byKey
         bkDel  == IF hasOld THEN Drop(byKey, {key}) ELSE byKey
         bpDel  == IF hasOld THEN Drop(byPath, {byKey[key]}) ELSE byPath
         loc    == IF hasOld THEN byKey[key] ELSE LowestFree(byPath)
         reg    == [ep |-> ep, d |-> d, lt |-> EffLt(p.lt),
                    base |-> IF p.base # 0 THEN p.base ELSE SrcBase(src), expl |-> p.base # 0,
                    x |-> p.x, links |-> p.links, due |-> now + EffLt(p.lt) + Grace]
         ev     == [E0 EXCEPT !.k = "reg", !.t = now, !.src = src,
                              !.ep = IF var = "noep" THEN "" ELSE ep, !.d = d,
                              !.lt = p.lt, !.base = p.base, !.x = p.x, !.links = p.links,
                              !.var = var, !.vg = Group(st), !.cls = ClsOf(st),
                              !.loc = IF st = "ok" THEN loc ELSE 0]
     IN IF st = "ok"
          THEN Commit(Put(bkDel, key, loc), Put(bpDel, loc, reg), now, <<ev>>, <<ev>>)
        ELSE IF st \in {"late", "crash"} /\ "RegDeleteBeforeValidate" \in Hyp
          THEN Commit(bkDel, bpDel, now, <<ev>>, <<ev>>)      \* oldreg.delete() ran, Registration() raised
        ELSE Commit(byKey, byPath, now, <<ev>>, <<ev>>)
  /\ budget' = budget - 1
  /\ UNCHANGED now

(* Registration.update_params (not initial) + refresh_timeout *)
Updated(r, src, u) ==
  LET lt2 == IF u.lt # 0 THEN u.lt ELSE r.lt
  IN [r EXCEPT !.lt   = lt2,
               !.base = IF u.base # 0 THEN u.base ELSE IF r.expl THEN @ ELSE SrcBase(src),
               !.expl = r.expl \/ u.base # 0,
               !.x    = IF u.x # 0 THEN u.x ELSE @,
               !.due  = now + lt2 + Grace]

(* -- POST to a registration resource ---------------------------------------- *)
UpdatePost(src, loc, u, var) ==
  /\ Request
  /\ LET st    == UpdStage(var)
         found == loc \in DOMAIN byPath
         ev    == [E0 EXCEPT !.k = "upd", !.t = now, !.src = src, !.loc = loc,
                             !.lt = u.lt, !.base = u.base, !.x = u.x, !.var = var, !.vg = Group(st),
                             !.cls = IF found THEN ClsOf(st) ELSE 4]
         bp2   == [byPath EXCEPT ![loc] = Updated(@, src, u)]
     IN IF found /\ (st = "ok" \/ (st = "post" /\ "UpdMutateBeforeBodyCheck" \in Hyp))
          THEN Commit(byKey, bp2, now, <<ev>>, <<ev>>)
          ELSE Commit(byKey, byPath, now, <<ev>>, <<ev>>)
  /\ budget' = budget - 1
  /\ UNCHANGED now

(* -- PUT to a registration resource ------------------------------------------- *)
UpdatePut(src, loc, u, var) ==
  /\ Request
  /\ LET st    == PutStage(var)
         found == loc \in DOMAIN byPath
         ev    == [E0 EXCEPT !.k = "put", !.t = now, !.src = src, !.loc = loc,
                             !.lt = u.lt, !.base = u.base, !.x = u.x, !.links = u.links,
                             !.var = var, !.vg = Group(st),
                             !.cls = IF found THEN ClsOf(st) ELSE 4]
         bp2   == [byPath EXCEPT ![loc] = [Updated(@, src, u) EXCEPT !.links = u.links]]
     IN IF found /\ st = "ok"
          THEN Commit(byKey, bp2, now, <<ev>>, <<ev>>)
          ELSE Commit(byKey, byPath, now, <<ev>>, <<ev>>)
  /\ budget' = budget - 1
  /\ UNCHANGED now

(* -- DELETE of a registration resource (Registration.delete) ----------------- *)
Delete(src, loc) ==
  /\ Request
  /\ LET found == loc \in DOMAIN byPath
         ev    == [E0 EXCEPT !.k = "del", !.t = now, !.src = src, !.loc = loc, !.var = "ok", !.vg = "ok",
                             !.cls = IF found THEN 2 ELSE 4]
     IN IF found
          THEN Commit(Drop(byKey, {<<byPath[loc].ep, byPath[loc].d>>}), Drop(byPath, {loc}), now, <<ev>>, <<ev>>)
          ELSE Commit(byKey, byPath, now, <<ev>>, <<ev>>)
  /\ budget' = budget - 1
  /\ UNCHANGED now

(* -- lifetime timers (Registration.delete run by the timeout task): the     *)
(*    registrations whose deadline is reached at time t disappear from both  *)
(*    indexes                                                                *)
Due(bp, t) == {l \in DOMAIN bp : bp[l].due <= t}
ExpireKeys(bk, bp, t) == Drop(bk, {<<bp[l].ep, bp[l].d>> : l \in Due(bp, t)})
ExpirePaths(bp, t) == Drop(bp, Due(bp, t))

(* -- the clock.  It never passes a pending deadline; the timers that are due *)
(*    at the new instant run before anything else happens at that instant    *)
(*    (Expire), so the lookups of that instant already see their effect      *)
CanTick(n) == /\ byPath # << >>
              /\ now + n <= MaxTime
              /\ \A l \in DOMAIN byPath : byPath[l].due >= now + n
Tick(n) ==
  /\ obs.bad = {} /\ CanTick(n)
  /\ now' = now + n
  /\ Commit(ExpireKeys(byKey, byPath, now + n), ExpirePaths(byPath, now + n), now + n, << >>,
            <<[E0 EXCEPT !.k = "adv", !.t = now + n, !.n = n]>>)
  /\ UNCHANGED budget

(* existing registration resources plus one path that does not exist *)
Targets == (DOMAIN byPath) \cup {LowestFree(byPath)}

Next == \/ \E src \in Srcs, ep \in Eps, d \in Ds, p \in RegProfiles, var \in RegVars : Register(src, ep, d, p, var)
        \/ \E src \in Srcs, loc \in Targets, u \in UpdProfiles, var \in UpdVars : UpdatePost(src, loc, u, var)
        \/ \E src \in Srcs, loc \in Targets, u \in PutProfiles, var \in PutVars : UpdatePut(src, loc, u, var)
        \/ \E src \in Srcs, loc \in Targets : Delete(src, loc)
        \/ \E n \in Adv : Tick(n)

Spec == Init /\ [][Next]_vars

(* -- sampling of long histories (tlc -simulate) -------------------------------- *)
(* Same actions, but the parameters of each step are drawn with               *)
(* RandomElement so that the kinds of step are balanced: clock steps between  *)
(* requests, re-registrations of existing names, requests to existing         *)
(* locations, and roughly as many valid as invalid request forms.  One        *)
(* disjunct = one equally likely choice of the simulator; a choice that is    *)
(* not enabled is skipped.  Not used for exhaustive checking.                 *)
Chance(pct) == RandomElement(1..100) <= pct
PickVar(vs) == IF Chance(60) \/ vs = {"ok"} THEN "ok" ELSE RandomElement(vs \ {"ok"})
PickKey == IF DOMAIN byKey # {} /\ Chance(45) THEN RandomElement(DOMAIN byKey)
           ELSE <<RandomElement(Eps), RandomElement(Ds)>>
PickLoc == IF DOMAIN byPath # {} /\ Chance(88) THEN RandomElement(DOMAIN byPath) ELSE LowestFree(byPath)

SimNext ==
  \/ \E w \in 1..3 : \E src \in {RandomElement(Srcs)}, key \in {PickKey}, p \in {RandomElement(RegProfiles)},
                        var \in {PickVar(RegVars)} : Register(src, key[1], key[2], p, var)
  \/ \E w \in 1..3 : (byPath # << >> \/ Chance(5)) /\
                      \E src \in {RandomElement(Srcs)}, loc \in {PickLoc}, u \in {RandomElement(UpdProfiles)},
                        var \in {PickVar(UpdVars)} : UpdatePost(src, loc, u, var)
  \/ \E w \in 1..1 : (byPath # << >> \/ Chance(5)) /\
                      \E src \in {RandomElement(Srcs)}, loc \in {PickLoc}, u \in {RandomElement(PutProfiles)},
                        var \in {PickVar(PutVars)} : UpdatePut(src, loc, u, var)
  \/ \E w \in 1..1 : (byPath # << >> \/ Chance(5)) /\
                      \E src \in {RandomElement(Srcs)}, loc \in {PickLoc} : Delete(src, loc)
  \/ \E w \in 1..4 : \E n \in {RandomElement(Adv)} : Tick(n)
  \/ \E n \in Adv : budget = 0 /\ Tick(n)      \* let the remaining lifetimes run out

SimSpec == Init /\ [][SimNext]_vars

(* -- invariants ---------------------------------------------------------------- *)
NoBad == obs.bad = {}
Inv_LookupsAreLive            == C20_LookupsAreLive(obs)
Inv_OnePerKey                 == C20_OnePerKey(obs)
Inv_ReRegisterKeepsLocation   == C20_ReRegisterKeepsLocation(obs)
Inv_LocationsDistinct         == C20_LocationsDistinct(obs)
Inv_FailedWriteChangesNothing == C20_FailedWriteChangesNothing(obs)

\* the two indexes describe the same registrations
IndexesAgree == /\ \A k \in DOMAIN byKey : byKey[k] \in DOMAIN byPath
                                           /\ <<byPath[byKey[k]].ep, byPath[byKey[k]].d>> = k
                /\ \A l \in DOMAIN byPath : <<byPath[l].ep, byPath[l].d>> \in DOMAIN byKey
                                            /\ byKey[<<byPath[l].ep, byPath[l].d>>] = l
\* the bookkeeping of successful writes and the implementation state tell the same story
BookAgrees == obs.bad = {} =>
                 /\ LiveKeys(obs, now) = DOMAIN byKey
                 /\ \A q \in DOMAIN byKey : /\ obs.book[q].loc = byKey[q]
                                              /\ obs.book[q].w + obs.book[q].lt + Grace = byPath[byKey[q]].due

\* reporter used with an order hypothesis: a terminal state in which a clause is false
ReportBad == obs.bad # {} => PrintT(<<"BAD", obs.bad, obs.blame, hist>>)

\* reporter used in simulation: the history of a finished behaviour
Done == budget = 0 /\ \A n \in Adv : ~CanTick(n)
ReportHist == Done => PrintT(<<"HIST", hist>>)

View == <<now, byKey, byPath, budget, obs>>
=============================================================================
