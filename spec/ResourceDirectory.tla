-------------------------- MODULE ResourceDirectory --------------------------
(* Implementation-shaped model of aiocoap's resource directory              *)
(* (aiocoap/cli/rd.py: CommonRD._by_key / _by_path, initialize_endpoint,    *)
(* Registration.update_params / delete / lifetime timer, DirectoryResource, *)
(* SimpleRegistration, RegistrationResource, the two lookup interfaces).    *)
(* One action per request handler, each with the stages in which the        *)
(* handler validates and mutates; every action emits the request event it   *)
(* stands for followed by what an endpoint lookup and a resource lookup     *)
(* return in the new state (lookups are pure reads of _by_key), and the     *)
(* monitor summary `obs' of ResourceDirectoryObs is folded over these       *)
(* events.  Filtered / paged lookups are actions of their own (they change  *)
(* nothing but the monitor summary).                                        *)
(*                                                                          *)
(* Hyp is a set of *order hypotheses*: with Hyp = {} every handler          *)
(* validates before it mutates (the design the property asks for; TLC must  *)
(* find all clauses invariant).  With a hypothesis switched on, the handler *)
(* mutates where a reading of rd.py says it does; TLC's counterexamples of  *)
(* that variant are only candidates: they are replayed on the real code and *)
(* only a clause that is false on the recorded execution counts.            *)
EXTENDS ResourceDirectoryObs

CONSTANTS Srcs,          \* requesting peers
          Eps, Ds,       \* endpoint names, sectors ("" = no sector)
          RegProfiles,   \* set of [lt, lx, base, x, links]
          UpdProfiles,   \* set of [lt, lx, base, x]
          PutProfiles,   \* set of [lt, lx, base, x, links]
          SRegProfiles,  \* set of [lt, lx, x, links]   (simple registration has no base)
          RegVars, UpdVars, PutVars, SRegVars,   \* request forms (see *Stage below)
          Filters,       \* sets of search criteria (sequences of [k, v, w, loc]) for filtered lookups
          Counts,        \* page sizes of filtered lookups (0: not paged)
          MaxLk,         \* filtered lookups per behaviour while the history is kept
          Adv,           \* sizes of clock steps
          MaxTime, MaxOps,
          Hyp,
          KeepHist       \* record the request history (replay) or not (plain model check)

VARIABLES now,
          byKey,     \* CommonRD._by_key : <<ep, d>> -> loc
          byPath,    \* CommonRD._by_path: loc -> Registration [loc, ep, d, lq, lr, base, expl, xs, links, due]
          budget,    \* requests the environment may still send
          obs,       \* monitor summary (ResourceDirectoryObs)
          hist       \* request history (for replay; outside the VIEW)

vars == <<now, byKey, byPath, budget, obs, hist>>

E0 == [k |-> "", t |-> 0, src |-> 0, ep |-> "", d |-> "", loc |-> 0, lt |-> 0, lx |-> 0, base |-> 0, x |-> 0,
       links |-> 0, var |-> "", vg |-> "", cls |-> 0, n |-> 0, eps |-> << >>, res |-> << >>,
       iface |-> "", crit |-> << >>, cnt |-> 0, first |-> << >>, pages |-> << >>, pcls |-> 0]

(* -- which stage of its handler a request form fails in -------------------- *)
(* DirectoryResource.render_post: body (content format, link-format parse), *)
(* then initialize_endpoint: ep / d / proxy ("early"), then                 *)
(* Registration.__init__ -> update_params ("late": reserved keys, lt, base) *)
(* and only then the replacement of the old registration; "crash": lt       *)
(* without a value                                                          *)
Rsvd == {"rsvd_rt", "rsvd_page", "rsvd_count", "rsvd_href", "rsvd_anchor"}   \* keys update_params refuses
RegStage(v) == CASE v = "ok" -> "ok"
                 [] v \in {"nocf", "badcf", "badlf"} -> "body"
                 [] v \in {"noep", "ep2", "d2", "proxy"} -> "early"
                 [] v \in {"ltnan", "lt2", "base2"} \cup Rsvd -> "late"
                 [] v = "ltnoval" -> "crash"
(* SimpleRegistration.render_post: base is refused ("sreq"); process_request *)
(* fetches /.well-known/core from the registrant ("fetch": the registrant   *)
(* answers 4.04, or 2.05 without the link-format content format, or with a  *)
(* body that does not parse), then initialize_endpoint as above             *)
SRegStage(v) == CASE v \in {"ok", "okwkc"} -> "ok"
                  [] v = "sbase" -> "sreq"
                  [] v \in {"fetch404", "fetchcf", "fetchbadlf"} -> "fetch"
                  [] v \in {"noep", "ep2", "d2", "proxy"} -> "early"
                  [] v \in {"ltnan", "lt2"} \cup Rsvd -> "late"
                  [] v = "ltnoval" -> "crash"
(* RegistrationResource.render_post: the body check ("post"), then          *)
(* update_params ("pre": ep/d, reserved keys, lt, base), then the mutation  *)
UpdStage(v) == CASE v = "ok" -> "ok"
                 [] v \in {"ep", "d", "ltnan", "lt2", "base2"} \cup Rsvd -> "pre"
                 [] v = "ltnoval" -> "crash"
                 [] v \in {"body", "cfbody", "cf"} -> "post"
(* RegistrationResource.render_put: body, update_params, mutation           *)
PutStage(v) == CASE v = "ok" -> "ok"
                 [] v \in {"nocf", "badlf"} -> "body"
                 [] v \in {"ep", "ltnan"} \cup Rsvd -> "pre"
                 [] v = "ltnoval" -> "crash"

Group(stage) == CASE stage = "ok" -> "ok" [] stage = "body" -> "bad-body" [] stage = "early" -> "bad-key"
                  [] stage \in {"late", "pre", "sreq"} -> "bad-param" [] stage = "crash" -> "lt-novalue"
                  [] stage = "post" -> "body" [] stage = "fetch" -> "fetch-failed"
ClsOf(stage) == IF stage = "ok" THEN 2 ELSE IF stage = "crash" THEN 5 ELSE 4

(* -- what the lookups return (get_endpoints = _by_key.values()) ----------- *)
Listed(bk) == {bk[k] : k \in DOMAIN bk}
RECURSIVE Ascending(_)
Ascending(S) == IF S = {} THEN << >>
                ELSE LET m == CHOOSE x \in S : \A y \in S : x <= y IN <<m>> \o Ascending(S \ {m})
XKeyOrder == <<"et", "foo", "if">>
XsSeq(xs) == LET ks == SelectSeq(XKeyOrder, LAMBDA k : k \in DOMAIN xs) IN [i \in DOMAIN ks |-> <<ks[i], xs[ks[i]]>>]
ImplEpItem(r) == [loc |-> r.loc, ep |-> r.ep, d |-> r.d, base |-> BaseUri(r.base), xs |-> XsSeq(r.xs)]
\* get_based_links + "strip needless anchors": the anchor is shown unless it is the root of the target
ImplResItem(r, i) == LET it == ResTab[r.base][r.links][i]
                     IN [href |-> it.href, anchor |-> IF it.anc = it.imp THEN "" ELSE it.anc,
                         attrs |-> SelectSeq(LinksOf(r.links)[i].attrs, LAMBDA a : a[1] # "anchor")]
\* the registrations in the order of their locations, as <<loc, link index>>
RECURSIVE LinkIdx(_, _)
LinkIdx(bp, ls) == IF ls = << >> THEN << >>
                   ELSE [i \in DOMAIN LinksOf(bp[Head(ls)].links) |-> <<Head(ls), i>>] \o LinkIdx(bp, Tail(ls))
ImplEpSeq(bk, bp) == LET ls == Ascending(Listed(bk)) IN [i \in DOMAIN ls |-> ImplEpItem(bp[ls[i]])]
ImplResSeq(bk, bp) == LET ix == LinkIdx(bp, Ascending(Listed(bk))) IN [i \in DOMAIN ix |-> ImplResItem(bp[ix[i][1]], ix[i][2])]
LkEp(bk, bp, t)  == [E0 EXCEPT !.k = "lkep", !.t = t, !.cls = 2, !.eps = ImplEpSeq(bk, bp), !.n = Len(ImplEpSeq(bk, bp))]
LkRes(bk, bp, t) == [E0 EXCEPT !.k = "lkres", !.t = t, !.cls = 2, !.res = ImplResSeq(bk, bp), !.n = Len(ImplResSeq(bk, bp))]

LowestFree(bp) == CHOOSE i \in 1..(Cardinality(DOMAIN bp) + 1) :
                     i \notin DOMAIN bp /\ \A j \in 1..(i - 1) : j \in DOMAIN bp

(* -- lifetime timers (Registration.delete run by the timeout task): the     *)
(*    registrations whose deadline is reached at time t disappear from both  *)
(*    indexes.  due = the first quantum at which the registration is gone    *)
Due(bp, t) == {l \in DOMAIN bp : bp[l].due <= t}
ExpireKeys(bk, bp, t) == Drop(bk, {<<bp[l].ep, bp[l].d>> : l \in Due(bp, t)})
ExpirePaths(bp, t) == Drop(bp, Due(bp, t))
DueAt(t, lq, lr) == t + lq + Grace + (IF lr > 0 THEN 1 ELSE 0)

\* a timer whose delay is not positive runs at once: the handler's state is seen after it
Commit(bk, bp, t, evs, h) ==
  LET bk2 == ExpireKeys(bk, bp, t)
      bp2 == ExpirePaths(bp, t)
  IN /\ byKey' = bk2 /\ byPath' = bp2
     /\ obs' = ObsFold(obs, evs \o <<LkEp(bk2, bp2, t), LkRes(bk2, bp2, t)>>)
     /\ hist' = IF KeepHist THEN hist \o h ELSE hist

Init == /\ now = 0 /\ byKey = << >> /\ byPath = << >> /\ budget = MaxOps
        /\ obs = ObsInit /\ hist = << >>

Request == obs.bad = {} /\ budget > 0

NewReg(src, ep, d, p, loc, base) ==
  LET lf == EffLife(p)
  IN [loc |-> loc, ep |-> ep, d |-> d, lq |-> lf.q, lr |-> lf.r,
      base |-> IF base # 0 THEN base ELSE SrcBase(src), expl |-> base # 0,
      xs |-> XMap(p.x), links |-> p.links, due |-> DueAt(now, lf.q, lf.r)]

(* -- POST to the directory resource ---------------------------------------- *)
Register(src, ep, d, p, var) ==
  /\ Request
  /\ LET st     == RegStage(var)
         key    == <<ep, d>>
         hasOld == key \in DOMAIN byKey
         bkDel  == IF hasOld THEN Drop(byKey, {key}) ELSE byKey
         bpDel  == IF hasOld THEN Drop(byPath, {byKey[key]}) ELSE byPath
         loc    == IF hasOld THEN byKey[key] ELSE LowestFree(byPath)
         ev     == [E0 EXCEPT !.k = "reg", !.t = now, !.src = src,
                              !.ep = IF var = "noep" THEN "" ELSE ep, !.d = d,
                              !.lt = p.lt, !.lx = p.lx, !.base = p.base, !.x = p.x, !.links = p.links,
                              !.var = var, !.vg = Group(st), !.cls = ClsOf(st),
                              !.loc = IF st = "ok" THEN loc ELSE 0]
     IN IF st = "ok"
          THEN Commit(Put(bkDel, key, loc), Put(bpDel, loc, NewReg(src, ep, d, p, loc, p.base)), now, <<ev>>, <<ev>>)
        ELSE IF st \in {"late", "crash"} /\ "RegDeleteBeforeValidate" \in Hyp
          THEN Commit(bkDel, bpDel, now, <<ev>>, <<ev>>)      \* oldreg.delete() ran, Registration() raised
        ELSE Commit(byKey, byPath, now, <<ev>>, <<ev>>)
  /\ budget' = budget - 1
  /\ UNCHANGED now

(* -- simple registration: POST to /.well-known/rd --------------------------- *)
(* the answer carries no location: the event shows loc = 0, the history     *)
(* keeps the location for later requests aimed at this registration         *)
SimpleRegister(src, ep, d, p, var) ==
  /\ Request
  /\ LET st     == SRegStage(var)
         key    == <<ep, d>>
         hasOld == key \in DOMAIN byKey
         bkDel  == IF hasOld THEN Drop(byKey, {key}) ELSE byKey
         bpDel  == IF hasOld THEN Drop(byPath, {byKey[key]}) ELSE byPath
         loc    == IF hasOld THEN byKey[key] ELSE LowestFree(byPath)
         ev     == [E0 EXCEPT !.k = "sreg", !.t = now, !.src = src,
                              !.ep = IF var = "noep" THEN "" ELSE ep, !.d = d,
                              !.lt = p.lt, !.lx = p.lx, !.x = p.x, !.links = p.links,
                              !.var = var, !.vg = Group(st), !.cls = ClsOf(st)]
         hv     == [ev EXCEPT !.loc = IF st = "ok" THEN loc ELSE 0]
         \* initialize_endpoint before the fetch: a registration without links exists when the fetch fails
         early  == NewReg(src, ep, d, [p EXCEPT !.links = 0], loc, 0)
     IN IF st = "ok"
          THEN Commit(Put(bkDel, key, loc), Put(bpDel, loc, NewReg(src, ep, d, p, loc, 0)), now, <<ev>>, <<hv>>)
        ELSE IF st = "fetch" /\ "SimpleRegBeforeFetch" \in Hyp
          THEN Commit(Put(bkDel, key, loc), Put(bpDel, loc, early), now, <<ev>>, <<hv>>)
        ELSE IF st \in {"late", "crash"} /\ "RegDeleteBeforeValidate" \in Hyp
          THEN Commit(bkDel, bpDel, now, <<ev>>, <<hv>>)
        ELSE Commit(byKey, byPath, now, <<ev>>, <<hv>>)
  /\ budget' = budget - 1
  /\ UNCHANGED now

(* Registration.update_params (not initial) + refresh_timeout *)
Updated(r, src, u) ==
  LET lf  == EffLife(u)
      lq2 == IF GivesLt(u) THEN lf.q ELSE r.lq
      lr2 == IF GivesLt(u) THEN lf.r ELSE r.lr
  IN [r EXCEPT !.lq   = lq2, !.lr = lr2,
               !.base = IF u.base # 0 THEN u.base ELSE IF r.expl THEN @ ELSE SrcBase(src),
               !.expl = r.expl \/ u.base # 0,
               !.xs   = MergeX(@, u.x),
               !.due  = DueAt(now, lq2, lr2)]

(* -- POST to a registration resource ---------------------------------------- *)
UpdatePost(src, loc, u, var) ==
  /\ Request
  /\ LET st    == UpdStage(var)
         found == loc \in DOMAIN byPath
         ev    == [E0 EXCEPT !.k = "upd", !.t = now, !.src = src, !.loc = loc,
                             !.lt = u.lt, !.lx = u.lx, !.base = u.base, !.x = u.x, !.var = var, !.vg = Group(st),
                             !.cls = IF found THEN ClsOf(st) ELSE 4]
         bp2   == [byPath EXCEPT ![loc] = Updated(@, src, u)]
     IN IF found /\ (st = "ok" \/ (st = "post" /\ "UpdMutateBeforeBodyCheck" \in Hyp))
          THEN Commit(byKey, bp2, now, <<ev>>, <<ev>>)
          ELSE Commit(byKey, byPath, now, <<ev>>, <<ev>>)
  /\ budget' = budget - 1
  /\ UNCHANGED now

(* -- PUT to a registration resource ------------------------------------------- *)
UpdatePut(src, loc, u, var) ==
  /\ Request
  /\ LET st    == PutStage(var)
         found == loc \in DOMAIN byPath
         ev    == [E0 EXCEPT !.k = "put", !.t = now, !.src = src, !.loc = loc,
                             !.lt = u.lt, !.lx = u.lx, !.base = u.base, !.x = u.x, !.links = u.links,
                             !.var = var, !.vg = Group(st),
                             !.cls = IF found THEN ClsOf(st) ELSE 4]
         bp2   == [byPath EXCEPT ![loc] = [Updated(@, src, u) EXCEPT !.links = u.links]]
     IN IF found /\ st = "ok"
          THEN Commit(byKey, bp2, now, <<ev>>, <<ev>>)
          ELSE Commit(byKey, byPath, now, <<ev>>, <<ev>>)
  /\ budget' = budget - 1
  /\ UNCHANGED now

(* -- DELETE of a registration resource (Registration.delete) ----------------- *)
Delete(src, loc) ==
  /\ Request
  /\ LET found == loc \in DOMAIN byPath
         ev    == [E0 EXCEPT !.k = "del", !.t = now, !.src = src, !.loc = loc, !.var = "ok", !.vg = "ok",
                             !.cls = IF found THEN 2 ELSE 4]
     IN IF found
          THEN Commit(Drop(byKey, {<<byPath[loc].ep, byPath[loc].d>>}), Drop(byPath, {loc}), now, <<ev>>, <<ev>>)
          ELSE Commit(byKey, byPath, now, <<ev>>, <<ev>>)
  /\ budget' = budget - 1
  /\ UNCHANGED now

(* -- filtered / paged lookup (EndpointLookupInterface / ResourceLookup-      *)
(*    Interface.render_get + _paginate): the criteria are applied one after   *)
(*    the other to the registrations (their parameters or any of their        *)
(*    links) resp. to the links (their attributes or the parameters of their  *)
(*    registration), then the result is sliced                                *)
NLk(h) == Cardinality({i \in DOMAIN h : h[i].k = "flk"})
Lookup(iface, crit, cnt) ==
  /\ obs.bad = {}
  /\ KeepHist => NLk(hist) < MaxLk
  /\ LET io  == [book |-> [q \in DOMAIN byKey |-> byPath[byKey[q]]]]
         ls  == Ascending(Listed(byKey))
         key(l) == <<byPath[l].ep, byPath[l].d>>
         ix  == LinkIdx(byPath, ls)
         sel == IF iface = "ep"
                  THEN LET ks == SelectSeq(ls, LAMBDA l : EpSel(io, key(l), crit, TRUE))
                       IN [i \in DOMAIN ks |-> ImplEpItem(byPath[ks[i]])]
                  ELSE LET ks == SelectSeq(ix, LAMBDA p : ResSel(io, <<key(p[1]), p[2]>>, crit, TRUE))
                       IN [i \in DOMAIN ks |-> ImplResItem(byPath[ks[i][1]], ks[i][2])]
         n   == Len(sel)
         rq  == [E0 EXCEPT !.k = "flk", !.t = now, !.iface = iface, !.crit = crit, !.cnt = cnt]
         ev  == [rq EXCEPT !.cls = 2, !.n = n,
                           !.eps = IF iface = "ep" THEN sel ELSE << >>,
                           !.res = IF iface = "ep" THEN << >> ELSE sel,
                           !.first = IF cnt = 0 THEN << >> ELSE SubSeq(sel, 1, Min2(cnt, n)),
                           !.pages = IF cnt = 0 THEN << >>
                                     ELSE [i \in 1..(n \div cnt + 1) |-> SubSeq(sel, (i - 1) * cnt + 1, Min2(i * cnt, n))],
                           !.pcls = IF cnt = 0 THEN 0 ELSE 2]
     IN /\ obs' = ObsEvent(obs, ev)
        /\ hist' = IF KeepHist THEN Append(hist, rq) ELSE hist
  /\ UNCHANGED <<now, byKey, byPath, budget>>

(* -- the clock.  It never passes a pending deadline; the timers that are due *)
(*    at the new instant run before anything else happens at that instant    *)
(*    (Commit), so the lookups of that instant already see their effect      *)
CanTick(n) == /\ byPath # << >>
              /\ now + n <= MaxTime
              /\ \A l \in DOMAIN byPath : byPath[l].due >= now + n
Tick(n) ==
  /\ obs.bad = {} /\ CanTick(n)
  /\ now' = now + n
  /\ Commit(byKey, byPath, now + n, << >>, <<[E0 EXCEPT !.k = "adv", !.t = now + n, !.n = n]>>)
  /\ UNCHANGED budget

(* deadlines beyond the horizon of the ordinary steps (the default lifetime  *)
(* of 25 hours, lifetimes of days, the largest lifetime): the clock jumps to *)
(* the quantum before the next deadline (back = 1) or onto it (back = 0)     *)
NextDue == CHOOSE t \in {byPath[l].due : l \in DOMAIN byPath} : \A l \in DOMAIN byPath : t <= byPath[l].due
CanJump(back) == /\ byPath # << >>
                 /\ NextDue - back > now
                 /\ NextDue - back > MaxTime
Jump(back) ==
  /\ obs.bad = {} /\ CanJump(back)
  /\ now' = NextDue - back
  /\ Commit(byKey, byPath, NextDue - back, << >>,
            <<[E0 EXCEPT !.k = "adv", !.t = NextDue - back, !.n = NextDue - back - now]>>)
  /\ UNCHANGED budget

(* existing registration resources plus one path that does not exist *)
Targets == (DOMAIN byPath) \cup {LowestFree(byPath)}

Next == \/ \E src \in Srcs, ep \in Eps, d \in Ds, p \in RegProfiles, var \in RegVars : Register(src, ep, d, p, var)
        \/ \E src \in Srcs, ep \in Eps, d \in Ds, p \in SRegProfiles, var \in SRegVars : SimpleRegister(src, ep, d, p, var)
        \/ \E src \in Srcs, loc \in Targets, u \in UpdProfiles, var \in UpdVars : UpdatePost(src, loc, u, var)
        \/ \E src \in Srcs, loc \in Targets, u \in PutProfiles, var \in PutVars : UpdatePut(src, loc, u, var)
        \/ \E src \in Srcs, loc \in Targets : Delete(src, loc)
        \/ \E iface \in {"ep", "res"}, crit \in Filters, cnt \in Counts : Lookup(iface, crit, cnt)
        \/ \E n \in Adv : Tick(n)
        \/ \E back \in {0, 1} : Jump(back)

Spec == Init /\ [][Next]_vars

(* -- sampling of long histories (tlc -simulate) -------------------------------- *)
(* Same actions, but the parameters of each step are drawn with               *)
(* RandomElement so that the kinds of step are balanced: clock steps between  *)
(* requests, re-registrations of existing names, requests to existing         *)
(* locations, and roughly as many valid as invalid request forms.  One        *)
(* disjunct = one equally likely choice of the simulator; a choice that is    *)
(* not enabled is skipped.  Not used for exhaustive checking.                 *)
Chance(pct) == RandomElement(1..100) <= pct
PickVar(vs) == IF Chance(60) \/ vs = {"ok"} THEN "ok" ELSE RandomElement(vs \ {"ok"})
PickKey == IF DOMAIN byKey # {} /\ Chance(45) THEN RandomElement(DOMAIN byKey)
           ELSE <<RandomElement(Eps), RandomElement(Ds)>>
PickLoc == IF DOMAIN byPath # {} /\ Chance(88) THEN RandomElement(DOMAIN byPath) ELSE LowestFree(byPath)

SimNext ==
  \/ \E w \in 1..3 : \E src \in {RandomElement(Srcs)}, key \in {PickKey}, p \in {RandomElement(RegProfiles)},
                        var \in {PickVar(RegVars)} : Register(src, key[1], key[2], p, var)
  \/ \E w \in 1..1 : \E src \in {RandomElement(Srcs)}, key \in {PickKey}, p \in {RandomElement(SRegProfiles)},
                        var \in {PickVar(SRegVars)} : SimpleRegister(src, key[1], key[2], p, var)
  \/ \E w \in 1..3 : (byPath # << >> \/ Chance(5)) /\
                      \E src \in {RandomElement(Srcs)}, loc \in {PickLoc}, u \in {RandomElement(UpdProfiles)},
                        var \in {PickVar(UpdVars)} : UpdatePost(src, loc, u, var)
  \/ \E w \in 1..1 : (byPath # << >> \/ Chance(5)) /\
                      \E src \in {RandomElement(Srcs)}, loc \in {PickLoc}, u \in {RandomElement(PutProfiles)},
                        var \in {PickVar(PutVars)} : UpdatePut(src, loc, u, var)
  \/ \E w \in 1..1 : (byPath # << >> \/ Chance(5)) /\
                      \E src \in {RandomElement(Srcs)}, loc \in {PickLoc} : Delete(src, loc)
  \/ \E w \in 1..2 : byPath # << >> /\ budget > 0 /\
                      \E iface \in {RandomElement({"ep", "res"})}, crit \in {RandomElement(Filters)},
                        cnt \in {RandomElement(Counts)} : Lookup(iface, crit, cnt)
  \/ \E w \in 1..4 : \E n \in {RandomElement(Adv)} : Tick(n)
  \/ \E n \in Adv : budget = 0 /\ Tick(n)      \* let the remaining lifetimes run out
  \/ \E back \in {0, 1} : (budget = 0 \/ Chance(10)) /\ Jump(back)

SimSpec == Init /\ [][SimNext]_vars

(* -- invariants ---------------------------------------------------------------- *)
NoBad == obs.bad = {}
Inv_LookupsAreLive            == C20_LookupsAreLive(obs)
Inv_OnePerKey                 == C20_OnePerKey(obs)
Inv_ReRegisterKeepsLocation   == C20_ReRegisterKeepsLocation(obs)
Inv_LocationsDistinct         == C20_LocationsDistinct(obs)
Inv_FailedWriteChangesNothing == C20_FailedWriteChangesNothing(obs)
Inv_FilteredLookupExact       == C20_FilteredLookupExact(obs)
Inv_PagingPartitions          == C20_PagingPartitions(obs)

\* the two indexes describe the same registrations
IndexesAgree == /\ \A k \in DOMAIN byKey : byKey[k] \in DOMAIN byPath
                                           /\ <<byPath[byKey[k]].ep, byPath[byKey[k]].d>> = k
                                           /\ byPath[byKey[k]].loc = byKey[k]
                /\ \A l \in DOMAIN byPath : <<byPath[l].ep, byPath[l].d>> \in DOMAIN byKey
                                            /\ byKey[<<byPath[l].ep, byPath[l].d>>] = l
\* the bookkeeping of successful writes and the implementation state tell the same story
BookAgrees == obs.bad = {} =>
                 /\ LiveKeys(obs, now) = DOMAIN byKey
                 /\ \A q \in DOMAIN byKey : /\ obs.book[q].loc = byKey[q]
                                              /\ DueAt(obs.book[q].w, obs.book[q].lq, obs.book[q].lr) = byPath[byKey[q]].due

\* reporter used with an order hypothesis: a terminal state in which a clause is false
ReportBad == obs.bad # {} => PrintT(<<"BAD", obs.bad, obs.blame, hist>>)

\* reporter used in simulation: the history of a finished behaviour
Done == budget = 0 /\ (\A n \in Adv : ~CanTick(n)) /\ (\A back \in {0, 1} : ~CanJump(back))
ReportHist == Done => PrintT(<<"HIST", hist>>)

View == <<now, byKey, byPath, budget, obs>>
=============================================================================
