------------------------------ MODULE EndToEnd ------------------------------
(* Two CoAP endpoints and the network between them: the client side of one  *)
(* confirmable request (MsgClient / TokenLayer behaviour, abstracted to     *)
(* "copies sent, awaiting ACK / awaiting response / done / failed"), the    *)
(* server side (deduplication, empty-ACK timer, piggy-backed or separate    *)
(* confirmable response with its own retransmission: MsgServer behaviour),  *)
(* and a network that may drop and duplicate datagrams within budgets and   *)
(* delivers in any order.  Network delays are short compared with the       *)
(* retransmission timers: a timer fires only when nothing of its exchange   *)
(* is in flight.                                                            *)
(*                                                                          *)
(* Safety: the handler runs at most once per request however many copies    *)
(* arrive (C04 end to end); a response completes only the request it        *)
(* answers, once (C02).  Liveness: with at most MAX_RETRANSMIT datagrams    *)
(* lost in total the request completes with its response (C02/C03: loss is  *)
(* repaired by retransmission, duplicates are harmless).                    *)
EXTENDS Naturals, Integers, Sequences, FiniteSets, TLC

CONSTANTS MaxRetransmit, DropBudget, DupBudget,
          Slow           \* TRUE: the handler finishes after EMPTY_ACK_DELAY (empty ACK, separate response)

Kinds == {"REQ", "PIGGY", "EACK", "SEP", "SACK", "RST"}

VARIABLES c,       \* client: [n, st]   st: "idle" | "wait" | "acked" | "done" | "failed"
          s,       \* server: [seen, calls, ack ("none"|"piggy"|"empty"), handler ("idle"|"running"|"finished"),
                   \*          sepN, sepSt ("none"|"wait"|"acked"|"reset"|"failed")]
          net,     \* Kinds -> number of such datagrams in flight
          drops, dups,
          hist     \* sequence of network decisions <<kind, occurrence, what>> (for replay on the real stack)

vars == <<c, s, net, drops, dups, hist>>

Send(n, k) == [n EXCEPT ![k] = @ + 1]
Take(n, k) == [n EXCEPT ![k] = @ - 1]
InFlightFor(who) == IF who = "client" THEN net["PIGGY"] + net["EACK"] + net["SEP"] + net["REQ"]
                    ELSE net["SEP"] + net["SACK"] + net["RST"]

Init == /\ c = [n |-> 0, st |-> "idle"]
        /\ s = [seen |-> FALSE, calls |-> 0, ack |-> "none", handler |-> "idle", sepN |-> 0, sepSt |-> "none"]
        /\ net = [k \in Kinds |-> 0] /\ drops = 0 /\ dups = 0 /\ hist = << >>

(* ---- client ---------------------------------------------------------------- *)
ClientSend == /\ c.st = "idle"
              /\ c' = [n |-> 1, st |-> "wait"] /\ net' = Send(net, "REQ")
              /\ UNCHANGED <<s, drops, dups, hist>>

\* the server's empty-ACK timer (0.1 s) is much shorter than the client's retransmission timers
\* ... and so is the handler (well under a second)
ServerOwesAck == (s.seen /\ s.ack = "none") \/ s.handler = "running"

ClientRetransmit == /\ c.st = "wait" /\ c.n <= MaxRetransmit /\ InFlightFor("client") = 0 /\ ~ServerOwesAck
                    /\ c' = [c EXCEPT !.n = @ + 1] /\ net' = Send(net, "REQ")
                    /\ UNCHANGED <<s, drops, dups, hist>>

ClientGiveUp == /\ c.st = "wait" /\ c.n = MaxRetransmit + 1 /\ InFlightFor("client") = 0 /\ ~ServerOwesAck
                /\ c' = [c EXCEPT !.st = "failed"]
                /\ UNCHANGED <<s, net, drops, dups, hist>>

(* ---- server timers / handler ---------------------------------------------- *)
ServerEmptyAck == /\ Slow /\ s.seen /\ s.ack = "none" /\ s.handler = "running"
                  /\ s' = [s EXCEPT !.ack = "empty"] /\ net' = Send(net, "EACK")
                  /\ UNCHANGED <<c, drops, dups, hist>>

HandlerFinishes ==
  /\ s.handler = "running"
  /\ s.ack = "empty"        \* a Slow handler is strictly slower than EMPTY_ACK_DELAY
  /\ IF s.ack = "none"
       THEN /\ s' = [s EXCEPT !.handler = "finished", !.ack = "piggy"] /\ net' = Send(net, "PIGGY")
       ELSE /\ s' = [s EXCEPT !.handler = "finished", !.sepN = 1, !.sepSt = "wait"] /\ net' = Send(net, "SEP")
  /\ UNCHANGED <<c, drops, dups, hist>>

ServerRetransmitSep == /\ s.sepSt = "wait" /\ s.sepN <= MaxRetransmit /\ InFlightFor("server") = 0
                       /\ s' = [s EXCEPT !.sepN = @ + 1] /\ net' = Send(net, "SEP")
                       /\ UNCHANGED <<c, drops, dups, hist>>

ServerSepGiveUp == /\ s.sepSt = "wait" /\ s.sepN = MaxRetransmit + 1 /\ InFlightFor("server") = 0
                   /\ s' = [s EXCEPT !.sepSt = "failed"]
                   /\ UNCHANGED <<c, net, drops, dups, hist>>

(* ---- network ------------------------------------------------------------------ *)
Drop(k) == /\ net[k] > 0 /\ drops < DropBudget
           /\ net' = Take(net, k) /\ drops' = drops + 1 /\ hist' = Append(hist, <<k, "drop">>)
           /\ UNCHANGED <<c, s, dups>>

Dup(k) == /\ net[k] > 0 /\ dups < DupBudget
          /\ net' = Send(net, k) /\ dups' = dups + 1 /\ hist' = Append(hist, <<k, "dup">>)
          /\ UNCHANGED <<c, s, drops>>

DeliverReq ==
  /\ net["REQ"] > 0
  /\ IF ~s.seen
       THEN \* new: remembered, handler started; a fast handler answers at once (piggy-backed)
            IF Slow
              THEN /\ s' = [s EXCEPT !.seen = TRUE, !.calls = @ + 1, !.handler = "running"]
                   /\ net' = Take(net, "REQ")
              ELSE /\ s' = [s EXCEPT !.seen = TRUE, !.calls = @ + 1, !.handler = "finished", !.ack = "piggy"]
                   /\ net' = Send(Take(net, "REQ"), "PIGGY")
       ELSE \* duplicate: the acknowledgement already sent is repeated, nothing else happens
            /\ s' = s
            /\ net' = IF s.ack = "piggy" THEN Send(Take(net, "REQ"), "PIGGY")
                      ELSE IF s.ack = "empty" THEN Send(Take(net, "REQ"), "EACK")
                      ELSE Take(net, "REQ")
  /\ hist' = Append(hist, <<"REQ", "deliver">>)
  /\ UNCHANGED <<c, drops, dups>>

DeliverPiggy == /\ net["PIGGY"] > 0
                /\ net' = Take(net, "PIGGY")
                /\ c' = IF c.st \in {"wait", "acked"} THEN [c EXCEPT !.st = "done"] ELSE c
                /\ hist' = Append(hist, <<"PIGGY", "deliver">>)
                /\ UNCHANGED <<s, drops, dups>>

DeliverEack == /\ net["EACK"] > 0
               /\ net' = Take(net, "EACK")
               /\ c' = IF c.st = "wait" THEN [c EXCEPT !.st = "acked"] ELSE c
               /\ hist' = Append(hist, <<"EACK", "deliver">>)
               /\ UNCHANGED <<s, drops, dups>>

DeliverSep ==   \* a separate CON response: matched -> ACK and completion; token already retired -> RST
  /\ net["SEP"] > 0
  /\ IF c.st \in {"wait", "acked"}
       THEN /\ c' = [c EXCEPT !.st = "done"] /\ net' = Send(Take(net, "SEP"), "SACK")
       ELSE /\ c' = c /\ net' = Send(Take(net, "SEP"), "RST")
  /\ hist' = Append(hist, <<"SEP", "deliver">>)
  /\ UNCHANGED <<s, drops, dups>>

DeliverSack == /\ net["SACK"] > 0
               /\ net' = Take(net, "SACK")
               /\ s' = IF s.sepSt = "wait" THEN [s EXCEPT !.sepSt = "acked"] ELSE s
               /\ hist' = Append(hist, <<"SACK", "deliver">>)
               /\ UNCHANGED <<c, drops, dups>>

DeliverRst == /\ net["RST"] > 0
              /\ net' = Take(net, "RST")
              /\ s' = IF s.sepSt = "wait" THEN [s EXCEPT !.sepSt = "reset"] ELSE s
              /\ hist' = Append(hist, <<"RST", "deliver">>)
              /\ UNCHANGED <<c, drops, dups>>

Deliver == DeliverReq \/ DeliverPiggy \/ DeliverEack \/ DeliverSep \/ DeliverSack \/ DeliverRst
Timers == ClientRetransmit \/ ClientGiveUp \/ ServerEmptyAck \/ HandlerFinishes \/ ServerRetransmitSep \/ ServerSepGiveUp

Next == ClientSend \/ Timers \/ Deliver \/ (\E k \in Kinds : Drop(k) \/ Dup(k))

Spec == Init /\ [][Next]_vars
FairSpec == /\ Spec /\ WF_vars(ClientSend) /\ WF_vars(ClientRetransmit) /\ WF_vars(ClientGiveUp)
            /\ WF_vars(ServerEmptyAck) /\ WF_vars(HandlerFinishes) /\ WF_vars(ServerRetransmitSep)
            /\ WF_vars(ServerSepGiveUp)
            /\ WF_vars(DeliverReq) /\ WF_vars(DeliverPiggy) /\ WF_vars(DeliverEack) /\ WF_vars(DeliverSep)
            /\ WF_vars(DeliverSack) /\ WF_vars(DeliverRst)

(* ---- properties ------------------------------------------------------------------ *)
TypeOK == /\ c.n \in 0..(MaxRetransmit + 1) /\ s.calls \in Nat /\ \A k \in Kinds : net[k] \in Nat
AtMostOnceExecution == s.calls <= 1
DoneOnlyAfterExecution == (c.st = "done") => (s.calls = 1 /\ s.handler = "finished")
CopiesBounded == c.n <= MaxRetransmit + 1 /\ s.sepN <= MaxRetransmit + 1
\* loss within the retransmission budget is always repaired
CompletesUnderBoundedLoss == (DropBudget <= MaxRetransmit) => <>(c.st = "done")
\* whatever the loss, the client does not hang while the message layer still owes it something
NeverStuckAwaitingAck == <>(c.st \in {"done", "failed", "acked"})
View == <<c, s, net, drops, dups>>
=============================================================================
