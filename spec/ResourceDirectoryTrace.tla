----------------------- MODULE ResourceDirectoryTrace -----------------------
(* Batch validation of event traces recorded from a real aiocoap server      *)
(* context carrying StandaloneResourceDirectory against the bookkeeping and  *)
(* the property clauses of ResourceDirectoryObs.  One initial state per      *)
(* recorded trace; every event is folded into `obs' (the expected content of *)
(* each lookup comes from the spec's own book of successful writes); at the  *)
(* end of each trace one line is printed with the clauses found false, the   *)
(* failed writes they are attributed to and the position of the first        *)
(* failure.                                                                  *)
EXTENDS ResourceDirectoryObs, Json, IOUtils, TLC, TLCExt

Traces == JsonDeserialize(IOEnv.TRACE_FILE)

VARIABLES tid, l, obs, firstBad

tvars == <<tid, l, obs, firstBad>>

\* lookup payloads arrive as JSON arrays = sequences, as the monitor expects them

TInit == /\ tid \in 1..Len(Traces) /\ l = 1 /\ obs = ObsInit /\ firstBad = 0

TNext == /\ l <= Len(Traces[tid])
         \* like the model, the monitor stops at the first event at which a clause is false:
         \* `obs.bad' names the clauses false at that event, not later consequences
         /\ obs' = IF obs.bad # {} THEN obs ELSE ObsEvent(obs, Traces[tid][l])
         /\ firstBad' = IF firstBad = 0 /\ obs'.bad # {} THEN l ELSE firstBad
         /\ l' = l + 1
         /\ UNCHANGED tid

TSpec == TInit /\ [][TNext]_tvars

Report == (l = Len(Traces[tid]) + 1) => PrintT(<<"TRACE", tid, l - 1, firstBad, obs.bad, obs.blame>>)
=============================================================================
